#![recursion_limit = "512"]
//! Driver of the deterministic simulation for property C19 (DESIGN.md section 3).
//!
//! `driver run`      plan worlds from VERIF_SEED, execute every host, check the oracle,
//!                   minimise and write replay files, write evidence/C19.json
//! `driver replay`   re-execute a replay file in fresh host processes
//! `driver selftest` harness determinism: every world twice, at two worker counts
//!
//! The harness itself uses only ordered containers, its own PRNG, and never reads a clock
//! for anything but the wall-time figure in the evidence file.

mod corpus;
mod gen;
mod item;
mod minimise;
mod miri_tier;
mod oracle;
mod plan;
mod prng;
mod rustc_tier;

use oracle::{first_diff, first_divergence, order_sensitive, self_divergence, Divergence};
use plan::{fault_names, plan_world, run_host, Backend, Build, Env, Event, HarnessError, HostCfg, HostLog, PlanOpts, World, ALL_FAULTS, F_HEAP, F_HISTORY, F_ORDER, F_THREAD};
use prng::{fnv64, Rng};
use serde_json::{json, Value};
use std::collections::{BTreeMap, BTreeSet};
use std::path::{Path, PathBuf};
use std::sync::atomic::{AtomicUsize, Ordering};
use std::sync::Mutex;

pub struct Cfg {
    pub verif: PathBuf,
    pub repo: PathBuf,
    pub build_dir: PathBuf,
    pub seed: u64,
    pub tier: String,
    pub worlds: usize,
    pub jobs: usize,
    pub wall_cap_s: u64,
    pub backend: Option<Backend>,
    pub build: Option<Build>,
    pub rustc_tier: bool,
    pub miri_tier: bool,
    pub evidence: PathBuf,
}

fn env_or(name: &str, default: &str) -> String {
    std::env::var(name).unwrap_or_else(|_| default.to_string())
}

pub fn make_env(cfg: &Cfg) -> Env {
    let mut host_bins = Vec::new();
    for b in [Backend::Syn1, Backend::Syn2] {
        for k in [Build::Plain, Build::Hooked, Build::PlainB, Build::Atom] {
            let p = cfg.build_dir.join(format!("target-{}-{}/debug/simhost", b.tag(), k.tag()));
            if p.exists() {
                host_bins.push(((b, k), p));
            }
        }
    }
    // one binary serves both back-ends' worlds
    for flavour in ["a", "b"] {
        let p = cfg.build_dir.join(format!("target-both-{}/debug/simhost", flavour));
        if p.exists() && !host_bins.iter().any(|x: &((Backend, Build), PathBuf)| x.0 .1 == Build::Both) {
            host_bins.push(((Backend::Syn1, Build::Both), p.clone()));
            host_bins.push(((Backend::Syn2, Build::Both), p));
        }
    }
    Env { host_bins, shim: cfg.build_dir.join("simhost.so"), aslr_off: ASLR_OFF.load(Ordering::SeqCst) == 1, fs_dir: cfg.build_dir.join("simfs") }
}

// ---------------------------------------------------------------- statistics

#[derive(Default, Clone)]
struct SiteStat {
    iterations: u64,
    len_ge2: u64,
    order_differs_from_reference: u64,
    not_canonical: u64,
    max_len: usize,
    order_sigs: BTreeSet<String>,
}

#[derive(Default)]
struct Stats {
    worlds: u64,
    control_worlds: u64,
    hosts: u64,
    expansions: u64,
    per_backend_build: BTreeMap<String, u64>,
    per_class_inputs: BTreeMap<String, u64>,
    verdicts: BTreeMap<String, u64>,
    order_sensitive_inputs: u64,
    inputs: u64,
    fault_enabled_worlds: BTreeMap<String, u64>,
    fault_fired_hosts: BTreeMap<String, u64>,
    obs_off_main_thread: u64,
    obs_nonempty_prefix: u64,
    prefix_lengths: BTreeSet<usize>,
    perturb_events: u64,
    order_policy_events: u64,
    getrandom_calls: u64,
    getrandom_bytes: u64,
    getrandom_in_expansion: u64,
    clock_reads: u64,
    clock_reads_in_expansion: u64,
    getenv_calls: u64,
    getenv_in_expansion: u64,
    getpid_calls: u64,
    getpid_in_expansion: u64,
    disk_writes_in_expansion: u64,
    concurrent_pairs: u64,
    scheduler_switches: u64,
    scheduling_points: u64,
    env_names_in_expansion: BTreeSet<String>,
    fs_calls_in_expansion: u64,
    fs_names_in_expansion: BTreeSet<String>,
    marathon_hosts: u64,
    longest_history: usize,
    sim_clock_min_ns: i64,
    sim_clock_max_ns: i64,
    distinct_histories: BTreeSet<u64>,
    distinct_fault_vectors: BTreeSet<u64>,
    nontrivial: Vec<u64>,
    sites: BTreeMap<String, SiteStat>,
    max_errors_in_one_input: usize,
    max_impls_in_one_input: usize,
    shape_probes: BTreeMap<&'static str, u64>,
    samples: Vec<Value>,
}

impl Stats {
    fn merge(&mut self, o: Stats) {
        self.worlds += o.worlds;
        self.control_worlds += o.control_worlds;
        self.hosts += o.hosts;
        self.expansions += o.expansions;
        for (k, v) in o.per_backend_build {
            *self.per_backend_build.entry(k).or_default() += v;
        }
        for (k, v) in o.per_class_inputs {
            *self.per_class_inputs.entry(k).or_default() += v;
        }
        for (k, v) in o.verdicts {
            *self.verdicts.entry(k).or_default() += v;
        }
        self.order_sensitive_inputs += o.order_sensitive_inputs;
        self.inputs += o.inputs;
        for (k, v) in o.fault_enabled_worlds {
            *self.fault_enabled_worlds.entry(k).or_default() += v;
        }
        for (k, v) in o.fault_fired_hosts {
            *self.fault_fired_hosts.entry(k).or_default() += v;
        }
        self.obs_off_main_thread += o.obs_off_main_thread;
        self.obs_nonempty_prefix += o.obs_nonempty_prefix;
        self.prefix_lengths.extend(o.prefix_lengths);
        self.perturb_events += o.perturb_events;
        self.order_policy_events += o.order_policy_events;
        self.getrandom_calls += o.getrandom_calls;
        self.getrandom_bytes += o.getrandom_bytes;
        self.getrandom_in_expansion += o.getrandom_in_expansion;
        self.clock_reads += o.clock_reads;
        self.clock_reads_in_expansion += o.clock_reads_in_expansion;
        self.getenv_calls += o.getenv_calls;
        self.getenv_in_expansion += o.getenv_in_expansion;
        self.getpid_calls += o.getpid_calls;
        self.getpid_in_expansion += o.getpid_in_expansion;
        self.disk_writes_in_expansion += o.disk_writes_in_expansion;
        self.concurrent_pairs += o.concurrent_pairs;
        self.scheduler_switches += o.scheduler_switches;
        self.scheduling_points += o.scheduling_points;
        self.env_names_in_expansion.extend(o.env_names_in_expansion);
        self.fs_calls_in_expansion += o.fs_calls_in_expansion;
        self.fs_names_in_expansion.extend(o.fs_names_in_expansion);
        self.marathon_hosts += o.marathon_hosts;
        self.longest_history = self.longest_history.max(o.longest_history);
        self.sim_clock_min_ns = self.sim_clock_min_ns.min(o.sim_clock_min_ns);
        self.sim_clock_max_ns = self.sim_clock_max_ns.max(o.sim_clock_max_ns);
        self.distinct_histories.extend(o.distinct_histories);
        self.distinct_fault_vectors.extend(o.distinct_fault_vectors);
        self.nontrivial.extend(o.nontrivial);
        for (k, v) in o.sites {
            let e = self.sites.entry(k).or_default();
            e.iterations += v.iterations;
            e.len_ge2 += v.len_ge2;
            e.order_differs_from_reference += v.order_differs_from_reference;
            e.not_canonical += v.not_canonical;
            e.max_len = e.max_len.max(v.max_len);
            if e.order_sigs.len() < 4096 {
                e.order_sigs.extend(v.order_sigs);
            }
        }
        for (k, v) in o.shape_probes {
            *self.shape_probes.entry(k).or_default() += v;
        }
        self.max_errors_in_one_input = self.max_errors_in_one_input.max(o.max_errors_in_one_input);
        self.max_impls_in_one_input = self.max_impls_in_one_input.max(o.max_impls_in_one_input);
        if self.samples.len() < 6 {
            self.samples.extend(o.samples);
            self.samples.truncate(6);
        }
    }
}

/// "This rare condition was hit" probes over the workload: input shapes that determine which
/// emission paths and containers an expansion exercises.  A probe stuck at zero means the
/// generator must change.
fn shape_probes(text: &str, o: &plan::Obs, out: &mut BTreeMap<&'static str, u64>) {
    let t: String = text.chars().filter(|c| !c.is_whitespace()).collect();
    let count = |pat: &str| t.matches(pat).count();
    let n_impls = if o.verdict == "OK" { o.text.matches("impl ").count() } else { 0 };
    let n_errs = if o.verdict == "ERR" { o.text.matches('\u{1f}').count().saturating_sub(1) } else { 0 };
    let lifetimes_in_attrs = {
        // distinct lifetimes mentioned inside attributes
        let mut set: BTreeSet<String> = BTreeSet::new();
        let b: Vec<char> = t.chars().collect();
        let mut i = 0;
        while i + 1 < b.len() {
            if b[i] == '\'' && b[i + 1].is_alphabetic() {
                let mut j = i + 1;
                while j < b.len() && (b[j].is_alphanumeric() || b[j] == '_') {
                    j += 1;
                }
                if j >= b.len() || b[j] != '\'' {
                    set.insert(b[i..j].iter().collect());
                }
                i = j;
            } else {
                i += 1;
            }
        }
        set.len()
    };
    let mut hit = |name: &'static str, cond: bool| {
        let e = out.entry(name).or_default();
        if cond {
            *e += 1;
        }
    };
    hit("accepted_with_ge2_impls", n_impls >= 2);
    hit("accepted_with_ge8_impls", n_impls >= 8);
    hit("accepted_with_ge16_impls", n_impls >= 16);
    hit("rejected_with_ge2_diagnostics", n_errs >= 2);
    hit("rejected_with_ge6_diagnostics", n_errs >= 6);
    hit("rejected_with_ge17_diagnostics", n_errs >= 17);
    hit("rejected_by_attribute_parse_error", o.verdict == "ERR" && n_errs == 0);
    hit("panics", o.verdict == "PANIC");
    hit("enum", t.contains("]enum") || t.starts_with("enum"));
    hit("tuple_struct", o.verdict != "PARSE" && t.contains("(") && !t.contains("{") && t.contains("struct"));
    hit("generic_type", t.contains("struct") && (t.contains(">{") || t.contains(">(") || t.contains(">where")) || t.contains("enumEntity<") || t.contains("<T>{"));
    hit("ge2_lifetimes_mentioned", lifetimes_in_attrs >= 2);
    hit("ge3_lifetimes_mentioned", lifetimes_in_attrs >= 3);
    hit("grouped_o2o_syntax", t.contains("#[o2o("));
    hit("allow_unknown", t.contains("allow_unknown"));
    hit("type_hint_as_braces_or_parens", t.contains("as{}") || t.contains("as()"));
    hit("type_hint_as_unit", t.contains("asUnit"));
    hit("nameless_tuple_counterpart", t.contains("(("));
    hit("fallible_instruction", t.contains("try_"));
    hit("into_existing", t.contains("into_existing"));
    hit("vars_param", t.contains("vars("));
    hit("update_param", t.contains("|..") || t.contains(",.."));
    hit("quick_return_param", t.contains("|return") || t.contains(",return"));
    hit("default_case_param", t.contains("|_") || t.contains(",_"));
    hit("attribute_params", t.contains("attribute("));
    hit("trait_level_repeat", t.contains("|repeat(") || t.contains(",repeat(") || t.contains("skip_repeat,") || t.contains("stop_repeat,") || t.contains("|skip_repeat") || t.contains("|stop_repeat"));
    hit("member_level_repeat", t.contains("#[repeat") || t.contains("(repeat") && t.contains("#[o2o(repeat"));
    hit("permeating_repeat", t.contains("permeate()"));
    hit("ghosts_type_level", t.contains("ghosts(") || t.contains("ghosts_owned(") || t.contains("ghosts_ref("));
    hit("ghosts_with_child_path", t.contains("@") && t.contains("ghosts") && t.contains("child_parents"));
    hit("ghost_member_level", t.contains("#[ghost") || t.contains("(ghost"));
    hit("where_clause_attr", t.contains("where_clause("));
    hit("ge2_where_clause_attrs", count("where_clause(") >= 2);
    hit("child_attr", t.contains("child("));
    hit("child_depth_ge2", t.contains("child(") && (t.contains("base.inner") || t.contains("base.base") || t.contains("1.0")));
    hit("ge3_child_parents_entries", t.contains("child_parents(") && t[t.find("child_parents(").unwrap_or(0)..].split(')').next().map(|x| x.matches(':').count() >= 3).unwrap_or(false));
    hit("parent_bare", t.contains("#[parent]") || t.contains("parent)"));
    hit("parent_parameterised", t.contains("parent(") && t.contains("[map(") || t.contains("parent(x,") || t.contains("parent(a,"));
    hit("parent_nested", t.contains("[parent("));
    hit("as_type", t.contains("as_type("));
    hit("literal", t.contains("literal("));
    hit("pattern", t.contains("pattern("));
    hit("variant_type_hint", t.contains("type_hint("));
    hit("ge3_trait_instructions_same_name", ["map(", "from(", "into(", "try_map("].iter().any(|k| count(&format!("#[{}", k)) >= 3));
    hit("inline_at_or_tilde_expr", t.contains("@.") || t.contains("~."));
    hit("ge4_counterpart_dedications", count("|") >= 4);
    hit("ge8_members", text.lines().filter(|l| l.trim_end().ends_with(',')).count() >= 8);
    hit("union", t.contains("union"));
}

fn events_hash(ev: &[Event]) -> u64 {
    let mut s = String::new();
    for e in ev {
        match e {
            Event::Spawn { tid } => s.push_str(&format!("T{};", tid)),
            Event::Expand { tid, input } => s.push_str(&format!("E{},{};", tid, input)),
            Event::ExpandTokens { tid, input } => s.push_str(&format!("Et{},{};", tid, input)),
            Event::ExpandPair { a_tid, a_input, b_tid, b_input, sched, third } => s.push_str(&format!("X{},{},{},{},{},{:?};", a_tid, a_input, b_tid, b_input, sched, third)),
            Event::Perturb { tid, n, seed } => s.push_str(&format!("P{},{},{};", tid, n, seed)),
            Event::Order { tid, policy, seed } => s.push_str(&format!("O{},{},{};", tid, policy, seed)),
            Event::OrderAt { tid, policy, seed, site } => s.push_str(&format!("O{},{},{},{};", tid, policy, seed, site)),
            Event::Addr => s.push_str("A;"),
        }
    }
    fnv64(s.as_bytes())
}

fn host_summary(h: &HostCfg) -> Value {
    let ev: Vec<String> = h
        .events
        .iter()
        .map(|e| match e {
            Event::Spawn { tid } => format!("spawn(t{})", tid),
            Event::Expand { tid, input } => format!("expand(t{},i{})", tid, input),
            Event::ExpandTokens { tid, input } => format!("expand_token_built(t{},i{})", tid, input),
            Event::ExpandPair { a_tid, a_input, b_tid, b_input, third, .. } => match third {
                None => format!("concurrently(t{}:i{} || t{}:i{})", a_tid, a_input, b_tid, b_input),
                Some((c_tid, c_input)) => format!("concurrently(t{}:i{} || t{}:i{} || t{}:i{})", a_tid, a_input, b_tid, b_input, c_tid, c_input),
            },
            Event::Perturb { tid, n, .. } => format!("perturb(t{},{})", tid, n),
            Event::Order { tid, policy, seed } => format!("order(t{},p{},s{})", tid, policy, seed),
            Event::OrderAt { tid, policy, site, .. } => format!("order(t{},p{},at {})", tid, policy, site),
            Event::Addr => "addr".to_string(),
        })
        .collect();
    json!({
        "entropy_seed": h.entropy_seed, "entropy_skip": h.entropy_skip,
        "env": h.env.iter().map(|(k, v)| format!("{}={}", k, if v.len() > 24 { format!("<{} bytes>", v.len()) } else { v.clone() })).collect::<Vec<_>>(),
        "clock_epoch_ns": h.clock_epoch_ns, "clock_step_ns": h.clock_step_ns, "pid": h.pid, "cwd": h.cwd, "argv": h.argv,
        "hostname": h.hostname, "uid": h.uid, "ncpu": h.ncpu, "exe": h.exe, "warm_disk": h.warm_disk, "second_build": h.alt_build,
        "fs_view": h.fs_map.iter().map(|(k, key, c)| format!("{} {} <{} bytes>", k, key, c.len())).collect::<Vec<_>>(),
        "history": if ev.len() > 60 { let mut e = ev[..60].to_vec(); e.push(format!("... {} more", ev.len() - 60)); e } else { ev },
    })
}

// ---------------------------------------------------------------- world execution

struct WorldOutcome {
    idx: usize,
    seed: u64,
    stats: Stats,
    divergence: Option<(Divergence, bool)>,
    harness_error: Option<String>,
    env_names: Vec<String>,
    fs_names: Vec<String>,
    /// inputs whose expansion touched a seam in this world, with the mask of seams
    seam_items: Vec<(item::Item, gen::Class, u32)>,
    /// kept only for divergent worlds: exactly what was executed
    world: Option<World>,
}

fn exec_world(env: &Env, w: &World) -> Result<Vec<HostLog>, HarnessError> {
    let mut logs = Vec::new();
    for h in &w.hosts {
        logs.push(run_host(env, w.backend, w.build, &w.texts, h)?);
    }
    Ok(logs)
}

fn run_world(env: &Env, idx: usize, ws: u64, corpus: &corpus::Corpus, po: &PlanOpts, want_sample: bool) -> WorldOutcome {
    let w = plan_world(ws, corpus, po);
    run_planned_world(env, idx, ws, w, want_sample)
}

fn run_planned_world(env: &Env, idx: usize, ws: u64, w: World, want_sample: bool) -> WorldOutcome {
    let mut st = Stats::default();
    st.sim_clock_min_ns = i64::MAX;
    st.sim_clock_max_ns = i64::MIN;
    st.worlds = 1;
    if w.control {
        st.control_worlds = 1;
    }
    *st.per_backend_build.entry(format!("{}/{}", w.backend.tag(), w.build.tag())).or_default() += 1;
    for n in fault_names(w.faults) {
        *st.fault_enabled_worlds.entry(n.to_string()).or_default() += 1;
    }
    for c in &w.classes {
        *st.per_class_inputs.entry(c.tag().to_string()).or_default() += 1;
    }
    st.inputs = w.items.len() as u64;

    let t_exec = std::time::Instant::now();
    let logs = match exec_world(env, &w) {
        Ok(l) => l,
        Err(e) => return WorldOutcome { idx, seed: ws, stats: st, divergence: None, harness_error: Some(format!("world {} (seed {}): {}", idx, ws, e.0)), env_names: vec![], fs_names: vec![], seam_items: vec![], world: None },
    };
    if t_exec.elapsed().as_secs_f64() > 2.0 && std::env::var("SIM_TIMING").is_ok() {
        eprintln!("timing: world {} took {:.1}s: faults={} inputs={} hosts={} events={:?} pairs={} switches={} max_text={}", idx, t_exec.elapsed().as_secs_f64(), fault_names(w.faults).join("+"), w.items.len(), w.hosts.len(), w.hosts.iter().map(|h| h.events.len()).collect::<Vec<_>>(), logs.iter().map(|l| l.pairs).sum::<u64>(), logs.iter().map(|l| l.switches).sum::<u64>(), w.texts.iter().map(|t| t.1.len()).max().unwrap_or(0));
    }

    let reference = &logs[0];
    for o in &reference.obs {
        if let Some(t) = w.texts.get(o.input as usize) {
            shape_probes(&t.1, o, &mut st.shape_probes);
        }
        *st.verdicts.entry(o.verdict.clone()).or_default() += 1;
        if order_sensitive(o) {
            st.order_sensitive_inputs += 1;
        }
        if o.verdict == "ERR" {
            st.max_errors_in_one_input = st.max_errors_in_one_input.max(o.text.matches('\u{1f}').count().saturating_sub(1));
        }
        if o.verdict == "OK" {
            st.max_impls_in_one_input = st.max_impls_in_one_input.max(o.text.matches("impl ").count());
        }
    }

    let mut divergence: Option<(Divergence, bool)> = None;
    let mut env_names: BTreeSet<String> = BTreeSet::new();
    let mut fs_names: BTreeSet<String> = BTreeSet::new();
    let mut seam_items: Vec<(item::Item, gen::Class, u32)> = Vec::new();
    for (hi, (h, log)) in w.hosts.iter().zip(logs.iter()).enumerate() {
        st.hosts += 1;
        st.expansions += log.obs.len() as u64;
        st.getrandom_calls += log.counters[0];
        st.getrandom_in_expansion += log.counters[1];
        st.getrandom_bytes += log.counters[2];
        st.clock_reads += log.counters[3];
        st.clock_reads_in_expansion += log.counters[4];
        st.getenv_calls += log.counters[5];
        st.getenv_in_expansion += log.counters[6];
        st.getpid_calls += log.counters[7];
        st.getpid_in_expansion += log.counters[8];
        st.disk_writes_in_expansion += log.counters[9];
        st.concurrent_pairs += log.pairs;
        st.scheduler_switches += log.switches;
        st.scheduling_points += log.sched_points;
        for (pos, mask) in &log.touched {
            if let Some(o) = log.obs.iter().find(|o| o.pos == *pos) {
                let i = o.input as usize;
                if i < w.items.len() && i < w.classes.len() && seam_items.len() < 8 && !seam_items.iter().any(|x: &(item::Item, gen::Class, u32)| x.0.render() == w.items[i].render()) {
                    seam_items.push((w.items[i].clone(), w.classes[i], *mask));
                }
            }
        }
        for n in log.env_names.split(';').filter(|x| !x.is_empty()) {
            env_names.insert(n.to_string());
            st.env_names_in_expansion.insert(n.to_string());
        }
        st.fs_calls_in_expansion += log.fs_calls;
        for n in log.fs_names.split(';').filter(|x| !x.is_empty()) {
            fs_names.insert(n.to_string());
            st.fs_names_in_expansion.insert(n.to_string());
        }
        let n_exp = h.events.iter().filter(|e| matches!(e, Event::Expand { .. } | Event::ExpandTokens { .. })).count();
        if n_exp >= 250 {
            st.marathon_hosts += 1;
        }
        st.longest_history = st.longest_history.max(n_exp);
        st.sim_clock_min_ns = st.sim_clock_min_ns.min(h.clock_epoch_ns);
        st.sim_clock_max_ns = st.sim_clock_max_ns.max(h.clock_epoch_ns.saturating_add(h.clock_step_ns.saturating_mul(1 << 20)));
        st.distinct_histories.insert(events_hash(&h.events));
        let mut fired = h.fired(&w.hosts[0]);
        let n_perturb = h.events.iter().filter(|e| matches!(e, Event::Perturb { .. })).count() as u64;
        let n_order = h.events.iter().filter(|e| matches!(e, Event::Order { .. })).count() as u64;
        st.perturb_events += n_perturb;
        st.order_policy_events += n_order;
        if n_perturb > 0 {
            fired |= F_HEAP
        }
        if n_order > 0 {
            fired |= F_ORDER
        }
        if h.events.iter().any(|e| matches!(e, Event::Spawn { .. })) {
            fired |= F_THREAD
        }
        if hi > 0 && h.events.iter().any(|e| matches!(e, Event::ExpandPair { .. })) {
            fired |= plan::F_CONCURRENT
        }
        if hi > 0 && h.events.iter().any(|e| matches!(e, Event::ExpandTokens { .. })) {
            fired |= plan::F_SPANS
        }
        if hi > 0 && h.events.iter().filter(|e| matches!(e, Event::Expand { .. })).map(|e| if let Event::Expand { input, .. } = e { *input } else { 0 }).collect::<Vec<_>>() != w.hosts[0].events.iter().filter_map(|e| if let Event::Expand { input, .. } = e { Some(*input) } else { None }).collect::<Vec<_>>() {
            fired |= F_HISTORY
        }
        for n in fault_names(fired) {
            *st.fault_fired_hosts.entry(n.to_string()).or_default() += 1;
        }
        st.distinct_fault_vectors.insert(fnv64(format!("{:?}|{}|{}|{}|{}|{:?}|{:?}|{:?}|{:?}|{:?}|{:?}|{:?}", h.env, h.entropy_seed, h.clock_epoch_ns, h.clock_step_ns, h.pid, h.cwd, h.argv, h.hostname, h.uid, h.ncpu, h.fs_map, (h.warm_disk, &h.exe, h.alt_build)).as_bytes()));

        let host_hist_hash = events_hash(&h.events);
        // position of each observation in the host's history, counting expansions only
        let mut n_before = 0usize;
        for o in &log.obs {
            if o.tid != 0 {
                st.obs_off_main_thread += 1;
            }
            if n_before > 0 {
                st.obs_nonempty_prefix += 1;
            }
            st.prefix_lengths.insert(n_before);
            // hooked probes
            let r = reference.obs.iter().find(|r| r.input == o.input && r.token_built == o.token_built);
            for (pi, p) in o.probes.iter().enumerate() {
                let e = st.sites.entry(format!("{}:{}", p.site, p.op)).or_default();
                e.iterations += 1;
                e.max_len = e.max_len.max(p.len);
                if p.len >= 2 {
                    e.len_ge2 += 1;
                    if p.order_sig != p.canon_sig {
                        e.not_canonical += 1;
                    }
                    if e.order_sigs.len() < 4096 {
                        e.order_sigs.insert(p.order_sig.clone());
                    }
                    if let Some(r) = r {
                        if let Some(rp) = r.probes.get(pi) {
                            if rp.site == p.site && rp.order_sig != p.order_sig {
                                e.order_differs_from_reference += 1;
                            }
                        }
                    }
                }
            }
            if hi > 0 {
                if let Some(r) = r {
                    let mut vec_sig = fired;
                    if o.tid != 0 {
                        vec_sig |= 1 << 20
                    }
                    if n_before != r.pos {
                        vec_sig |= 1 << 21
                    }
                    let sensitive = order_sensitive(r) || o.probes.iter().any(|p| p.len >= 2);
                    if sensitive && vec_sig != 0 {
                        let ih = fnv64(w.texts[o.input as usize].1.as_bytes());
                        st.nontrivial.push(ih ^ (vec_sig as u64).wrapping_mul(0x9E37_79B9_7F4A_7C15) ^ fnv64(format!("{}|{}", h.entropy_seed, host_hist_hash).as_bytes()).rotate_left(7));
                    }
                }
            }
            n_before += 1;
        }

        if divergence.is_none() {
            if hi > 0 {
                if let Some(d) = first_divergence(reference, log, hi) {
                    divergence = Some((d, w.control || h == &w.hosts[0]));
                }
            }
            if divergence.is_none() {
                if let Some(d) = self_divergence(log, hi) {
                    divergence = Some((d, false));
                }
            }
        }
    }

    if want_sample && divergence.is_none() && w.hosts.len() > 1 {
        // one observation written out in full
        let hi = w.hosts.len() - 1;
        if let Some(o) = logs[hi].obs.iter().find(|o| order_sensitive(o)).or(logs[hi].obs.first()) {
            let clip = |s: &str| if s.len() > 400 { format!("{}...<{} bytes>", &s[..s.char_indices().take_while(|(i, _)| *i < 400).last().map(|(i, c)| i + c.len_utf8()).unwrap_or(0)], s.len()) } else { s.to_string() };
            st.samples.push(json!({
                "world_seed": w.seed, "backend": w.backend.tag(), "build": w.build.tag(), "faults_enabled": fault_names(w.faults),
                "input_class": w.items[o.input as usize].origin, "input": w.texts[o.input as usize].1,
                "host": host_summary(&w.hosts[hi]), "observed_on_thread": o.tid, "position_in_history": o.pos,
                "rendering": { "verdict": o.verdict, "text": clip(&o.text.replace('\u{1f}', " | ")), "spans": clip(&o.spans) },
                "equals_reference_rendering": true,
            }));
        }
    }

    let keep = divergence.is_some();
    WorldOutcome { idx, seed: ws, stats: st, divergence, harness_error: None, env_names: env_names.into_iter().collect(), fs_names: fs_names.into_iter().collect(), seam_items, world: if keep { Some(w) } else { None } }
}

fn world_seed(master: u64, idx: usize) -> u64 {
    let mut r = Rng::new(master).fork(idx as u64);
    r.next_u64() >> 1
}

fn plan_opts(cfg: &Cfg, env: &Env, feedback: &[String], fs_feedback: &[String]) -> PlanOpts {
    plan_opts_pool(cfg, env, feedback, fs_feedback, &[])
}

fn plan_opts_pool(cfg: &Cfg, env: &Env, feedback: &[String], fs_feedback: &[String], seam_pool: &[(item::Item, gen::Class, u32)]) -> PlanOpts {
    let hooked_available = env.host_bin(Backend::Syn1, Build::Hooked).is_some() && env.host_bin(Backend::Syn2, Build::Hooked).is_some();
    PlanOpts { backend: cfg.backend, build: cfg.build, hooked_available, atom_available: env.host_bin(Backend::Syn1, Build::Atom).is_some() && env.host_bin(Backend::Syn2, Build::Atom).is_some(), feedback: feedback.to_vec(), fs_feedback: fs_feedback.to_vec(), cwds: vec!["/".into(), "/tmp".into(), cfg.build_dir.to_string_lossy().into_owned(), cfg.repo.to_string_lossy().into_owned()], max_inputs: if cfg.tier == "thorough" { 32 } else { 20 }, seam_pool: seam_pool.to_vec(), ultra_index: None }
}

fn run_batch(env: &Env, cfg: &Cfg, corpus: &corpus::Corpus, po: &PlanOpts, indices: &[usize], jobs: usize) -> Vec<WorldOutcome> {
    // plan first (cheap, in parallel), then execute the most expensive worlds first: a batch
    // ends at a barrier (the next batch is planned from this one's feedback), and a long
    // history that starts last would keep every other worker waiting
    let next = AtomicUsize::new(0);
    let planned: Mutex<Vec<(usize, u64, World)>> = Mutex::new(Vec::new());
    std::thread::scope(|s| {
        for _ in 0..jobs.max(1) {
            let (next, planned) = (&next, &planned);
            s.spawn(move || loop {
                let i = next.fetch_add(1, Ordering::SeqCst);
                if i >= indices.len() {
                    break;
                }
                let idx = indices[i];
                let w = plan_world(world_seed(cfg.seed, idx), corpus, po);
                let bytes: u64 = w.texts.iter().map(|t| t.1.len() as u64).sum::<u64>() / (w.texts.len().max(1) as u64);
                let events: u64 = w.hosts.iter().map(|h| h.events.len() as u64).sum();
                planned.lock().unwrap().push((idx, events * (bytes + 200), w));
            });
        }
    });
    let mut planned = planned.into_inner().unwrap();
    planned.sort_by_key(|p| (std::cmp::Reverse(p.1), p.0));
    let queue: Mutex<std::collections::VecDeque<(usize, u64, World)>> = Mutex::new(planned.into_iter().collect());
    let out: Mutex<Vec<WorldOutcome>> = Mutex::new(Vec::new());
    std::thread::scope(|s| {
        for slot in 0..jobs.max(1) {
            let (queue, out) = (&queue, &out);
            s.spawn(move || loop {
                plan::SLOT.with(|x| x.set(slot));
                let Some((idx, _, w)) = queue.lock().unwrap().pop_front() else { break };
                let o = run_planned_world(env, idx, world_seed(cfg.seed, idx), w, idx % 37 == 0);
                out.lock().unwrap().push(o);
            });
        }
    });
    let mut v = out.into_inner().unwrap();
    v.sort_by_key(|o| o.idx);
    v
}

// ---------------------------------------------------------------- known findings

struct Known {
    findings: Vec<(String, String)>,
    fixed: Vec<String>,
}

fn load_known(verif: &Path) -> Known {
    let mut k = Known { findings: vec![], fixed: vec![] };
    if let Ok(s) = std::fs::read_to_string(verif.join("known_findings.txt")) {
        for line in s.lines() {
            let line = line.trim();
            if let Some(rest) = line.strip_prefix("finding: property=C19 key=\"") {
                if let Some(end) = rest.find('"') {
                    k.findings.push((rest[..end].to_string(), rest[end + 1..].trim().to_string()));
                }
            } else if line.starts_with("fixed: property=C19") {
                k.fixed.push(line.to_string());
            }
        }
    }
    k
}

// ---------------------------------------------------------------- replay files

fn hostcfg_to_json(h: &HostCfg) -> Value {
    let ev: Vec<Value> = h
        .events
        .iter()
        .map(|e| match e {
            Event::Spawn { tid } => json!({"op": "spawn", "tid": tid}),
            Event::Expand { tid, input } => json!({"op": "expand", "tid": tid, "input": input}),
            Event::ExpandTokens { tid, input } => json!({"op": "expand_token_built", "tid": tid, "input": input}),
            Event::ExpandPair { a_tid, a_input, b_tid, b_input, sched, third } => json!({"op": "expand_pair", "tid": a_tid, "input": a_input, "b_tid": b_tid, "b_input": b_input, "sched": sched.to_string(), "third": third.map(|t| vec![t.0, t.1])}),
            Event::Perturb { tid, n, seed } => json!({"op": "perturb", "tid": tid, "n": n, "seed": seed.to_string()}),
            Event::Order { tid, policy, seed } => json!({"op": "order", "tid": tid, "policy": policy, "seed": seed.to_string()}),
            Event::OrderAt { tid, policy, seed, site } => json!({"op": "order_at", "tid": tid, "policy": policy, "seed": seed.to_string(), "site": site}),
            Event::Addr => json!({"op": "addr", "tid": 0}),
        })
        .collect();
    json!({
        "entropy_seed": h.entropy_seed.to_string(), "entropy_skip": h.entropy_skip,
        "env": h.env.iter().map(|(k, v)| json!([k, v])).collect::<Vec<_>>(),
        "clock_epoch_ns": h.clock_epoch_ns, "clock_step_ns": h.clock_step_ns,
        "pid": h.pid, "cwd": h.cwd, "argv": h.argv, "events": ev,
        "hostname": h.hostname, "uid": h.uid, "ncpu": h.ncpu, "exe": h.exe,
        "fs_map": h.fs_map.iter().map(|(k, key, c)| json!([k.to_string(), key, c])).collect::<Vec<_>>(),
        "warm_disk": h.warm_disk, "alt_build": h.alt_build,
    })
}

fn hostcfg_from_json(v: &Value) -> Option<HostCfg> {
    let mut h = HostCfg::reference();
    h.entropy_seed = v["entropy_seed"].as_str()?.parse().ok()?;
    h.entropy_skip = v["entropy_skip"].as_u64().unwrap_or(0);
    for e in v["env"].as_array()? {
        h.env.push((e[0].as_str()?.to_string(), e[1].as_str()?.to_string()));
    }
    h.clock_epoch_ns = v["clock_epoch_ns"].as_i64()?;
    h.clock_step_ns = v["clock_step_ns"].as_i64()?;
    h.pid = v["pid"].as_u64()? as u32;
    h.cwd = v["cwd"].as_str()?.to_string();
    for a in v["argv"].as_array()? {
        h.argv.push(a.as_str()?.to_string());
    }
    h.hostname = v["hostname"].as_str().map(|s| s.to_string());
    h.uid = v["uid"].as_u64().map(|x| x as u32);
    h.ncpu = v["ncpu"].as_u64().map(|x| x as u32);
    h.exe = v["exe"].as_str().map(|s| s.to_string());
    h.warm_disk = v["warm_disk"].as_bool().unwrap_or(false);
    h.alt_build = v["alt_build"].as_bool().unwrap_or(false);
    if let Some(a) = v["fs_map"].as_array() {
        for e in a {
            h.fs_map.push((e[0].as_str()?.chars().next()?, e[1].as_str()?.to_string(), e[2].as_str()?.to_string()));
        }
    }
    for e in v["events"].as_array()? {
        let tid = e["tid"].as_u64()? as u32;
        h.events.push(match e["op"].as_str()? {
            "spawn" => Event::Spawn { tid },
            "expand" => Event::Expand { tid, input: e["input"].as_u64()? as u32 },
            "expand_token_built" => Event::ExpandTokens { tid, input: e["input"].as_u64()? as u32 },
            "expand_pair" => Event::ExpandPair { a_tid: tid, a_input: e["input"].as_u64()? as u32, b_tid: e["b_tid"].as_u64()? as u32, b_input: e["b_input"].as_u64()? as u32, sched: e["sched"].as_str()?.parse().ok()?, third: e["third"].as_array().and_then(|a| Some((a.first()?.as_u64()? as u32, a.get(1)?.as_u64()? as u32))) },
            "perturb" => Event::Perturb { tid, n: e["n"].as_u64()? as u32, seed: e["seed"].as_str()?.parse().ok()? },
            "order" => Event::Order { tid, policy: e["policy"].as_u64()? as u8, seed: e["seed"].as_str()?.parse().ok()? },
            "order_at" => Event::OrderAt { tid, policy: e["policy"].as_u64()? as u8, seed: e["seed"].as_str()?.parse().ok()?, site: e["site"].as_str()?.to_string() },
            "addr" => Event::Addr,
            _ => return None,
        });
    }
    Some(h)
}

fn obs_json(o: &plan::Obs) -> Value {
    json!({"thread": o.tid, "position": o.pos, "token_built": o.token_built, "verdict": o.verdict, "text": o.text.split('\u{1f}').filter(|x| !x.is_empty()).collect::<Vec<_>>(), "spans": o.spans,
           "probes": o.probes.iter().map(|p| format!("{}:{} len={} order={}", p.site, p.op, p.len, p.order_sig)).collect::<Vec<_>>()})
}

/// Which unordered-container iteration sites see >= 2 entries for this input, and does a
/// reversed iteration order alone change the rendering?  (hooked build, if present)
fn attribute_sites(env: &Env, backend: Backend, text: &str) -> (Vec<String>, Option<bool>) {
    if env.host_bin(backend, Build::Hooked).is_none() {
        return (vec![], None);
    }
    let texts = vec![(0u32, text.to_string())];
    let mut a = HostCfg::reference();
    a.events = vec![Event::Expand { tid: 0, input: 0 }];
    let mut b = HostCfg::reference();
    b.events = vec![Event::Order { tid: 0, policy: 1, seed: 0 }, Event::Expand { tid: 0, input: 0 }];
    let (Ok(la), Ok(lb)) = (run_host(env, backend, Build::Hooked, &texts, &a), run_host(env, backend, Build::Hooked, &texts, &b)) else { return (vec![], None) };
    let mut sites: BTreeSet<String> = BTreeSet::new();
    for o in la.obs.iter().chain(lb.obs.iter()) {
        for p in &o.probes {
            if p.len >= 2 {
                sites.insert(p.site.clone());
            }
        }
    }
    let differs = first_divergence(&la, &lb, 1).is_some();
    // which of those iterations does the output actually depend on?  reverse one site at a time
    let mut culprits: Vec<String> = Vec::new();
    for site in &sites {
        let mut c = HostCfg::reference();
        c.events = vec![Event::OrderAt { tid: 0, policy: 1, seed: 0, site: site.clone() }, Event::Expand { tid: 0, input: 0 }];
        if let Ok(lc) = run_host(env, backend, Build::Hooked, &texts, &c) {
            if first_divergence(&la, &lc, 1).is_some() {
                culprits.push(site.clone());
            }
        }
    }
    if !culprits.is_empty() {
        return (culprits, Some(differs));
    }
    (if differs { sites.into_iter().collect() } else { vec![] }, Some(differs))
}

struct Report {
    path: PathBuf,
    signature: String,
    /// what a known-findings entry is matched on: channel + iteration sites (the fault kinds
    /// the minimiser ends up with vary from seed to seed and are not part of the identity)
    key: String,
    summary: String,
}

fn write_replay(cfg: &Cfg, env: &Env, ws: u64, idx: usize, m: &minimise::Minimised, replayable: bool, note: &str) -> Report {
    let d = &m.divergence;
    let text = m.mw.texts.iter().find(|t| t.0 == d.input).map(|t| t.1.clone()).unwrap_or_default();
    let (sites, order_alone) = attribute_sites(env, m.mw.backend, &text);
    let faults = fault_names(m.minimal_faults).join("+");
    let signature = format!("channel={} faults={} sites={}", d.channel, if faults.is_empty() { "none".into() } else { faults.clone() }, if sites.is_empty() { "none".to_string() } else { sites.join("+") });
    let (ra, rb) = match d.channel {
        "verdict" => (d.reference.verdict.clone(), d.observed.verdict.clone()),
        "text" => (d.reference.text.clone(), d.observed.text.clone()),
        _ => (d.reference.spans.clone(), d.observed.spans.clone()),
    };
    let fd = first_diff(&ra, &rb);
    let v = json!({
        "property": "C19",
        "what": "the same derive input rendered differently on two simulated build hosts",
        "verif_seed": cfg.seed, "world_index": idx, "world_seed": ws.to_string(),
        "repo": cfg.repo.to_string_lossy(),
        "backend": m.mw.backend.tag(), "build": m.mw.build.tag(),
        "channel": d.channel, "first_diff": fd,
        "minimal_faults": fault_names(m.minimal_faults),
        "iteration_sites_the_output_depends_on": sites,
        "reversed_iteration_order_alone_changes_output": order_alone,
        "signature": signature,
        "known_findings_key": format!("channel={} sites={}", d.channel, if sites.is_empty() { "none".to_string() } else { sites.join("+") }),
        "replayable": replayable, "note": note,
        "inputs": m.mw.texts.iter().map(|(i, t)| json!({"id": i, "text": t})).collect::<Vec<_>>(),
        "divergent_input": d.input,
        "reference_host": hostcfg_to_json(&m.mw.reference),
        "faulty_host": hostcfg_to_json(&m.mw.bad),
        "reference_observation": obs_json(&d.reference),
        "faulty_observation": obs_json(&d.observed),
        "minimisation": {"host_pairs_executed": m.runs, "accepted_steps": m.steps},
    });
    let dir = cfg.verif.join("replays");
    let _ = std::fs::create_dir_all(&dir);
    let path = dir.join(format!("C19-{}-{}.json", cfg.seed, idx));
    std::fs::write(&path, serde_json::to_string_pretty(&v).unwrap()).expect("write replay");
    let key = format!("channel={} sites={}", d.channel, if sites.is_empty() { "none".to_string() } else { sites.join("+") });
    Report { path, signature, key, summary: fd }
}

fn cmd_replay(cfg: &Cfg, path: &Path) -> i32 {
    let env = make_env(cfg);
    let Ok(s) = std::fs::read_to_string(path) else {
        eprintln!("cannot read {}", path.display());
        return 2;
    };
    let Ok(v) = serde_json::from_str::<Value>(&s) else {
        eprintln!("not JSON: {}", path.display());
        return 2;
    };
    if v["kind"] == "rustc_tier" {
        return rustc_tier::replay(cfg, &v, path);
    }
    if v["kind"] == "miri_tier" {
        return miri_tier::replay(cfg, &v, path);
    }
    let (Some(backend), Some(build)) = (v["backend"].as_str().and_then(Backend::parse), v["build"].as_str().and_then(Build::parse)) else {
        eprintln!("bad replay file");
        return 2;
    };
    let (Some(r), Some(b)) = (hostcfg_from_json(&v["reference_host"]), hostcfg_from_json(&v["faulty_host"])) else {
        eprintln!("bad replay file (hosts)");
        return 2;
    };
    let texts: Vec<(u32, String)> = v["inputs"].as_array().map(|a| a.iter().filter_map(|x| Some((x["id"].as_u64()? as u32, x["text"].as_str()?.to_string()))).collect()).unwrap_or_default();
    let channel = v["channel"].as_str().unwrap_or("text").to_string();
    let (lr, lb) = match (run_host(&env, backend, build, &texts, &r), run_host(&env, backend, build, &texts, &b)) {
        (Ok(a), Ok(b)) => (a, b),
        (Err(e), _) | (_, Err(e)) => {
            eprintln!("harness error: {}", e.0);
            return 2;
        },
    };
    let d = first_divergence(&lr, &lb, 1).or_else(|| self_divergence(&lb, 1)).or_else(|| self_divergence(&lr, 0));
    match d {
        Some(d) => {
            let same = obs_json(&d.reference)["text"] == v["reference_observation"]["text"] && obs_json(&d.observed)["text"] == v["faulty_observation"]["text"] && d.reference.spans == v["reference_observation"]["spans"].as_str().unwrap_or("") && d.observed.spans == v["faulty_observation"]["spans"].as_str().unwrap_or("");
            println!("replay: divergence on channel {} (recorded: {}); renderings {} the recorded ones", d.channel, channel, if same { "are byte-identical to" } else { "DIFFER from" });
            println!("reference: {}", serde_json::to_string(&obs_json(&d.reference)).unwrap());
            println!("faulty   : {}", serde_json::to_string(&obs_json(&d.observed)).unwrap());
            println!("VIOLATION property=C19 replay={}", path.display());
            1
        },
        None => {
            println!("replay: no longer reproduces (both hosts render every input identically)");
            0
        },
    }
}

// ---------------------------------------------------------------- run

fn cmd_run(cfg: &Cfg) -> i32 {
    let t0 = std::time::Instant::now();
    let env = make_env(cfg);
    if !env.shim.exists() || env.host_bin(Backend::Syn1, Build::Plain).is_none() || env.host_bin(Backend::Syn2, Build::Plain).is_none() {
        eprintln!("harness error: simhost.so or plain host binaries missing under {}", cfg.build_dir.display());
        return 2;
    }
    let corpus = corpus::load(&cfg.repo);
    let known = load_known(&cfg.verif);
    println!("C19 simulation: seed={} tier={} worlds={} jobs={} repo={} corpus={} items ({} files)", cfg.seed, cfg.tier, cfg.worlds, cfg.jobs, cfg.repo.display(), corpus.items.len(), corpus.files);

    let mut total = Stats::default();
    total.sim_clock_min_ns = i64::MAX;
    total.sim_clock_max_ns = i64::MIN;
    let mut feedback: BTreeSet<String> = BTreeSet::new();
    let mut fs_feedback: BTreeSet<String> = BTreeSet::new();
    let mut divergences: Vec<(usize, u64, Divergence, bool, World)> = Vec::new();
    let mut harness_errors: Vec<String> = Vec::new();
    let batch = 256usize;
    let mut done = 0usize;
    let mut capped = false;
    // the ultra-marathon world(s) (65536+ expansions in one process) run beside the batches
    let n_ultra = if std::env::var("SIM_NO_ULTRA").is_ok() { 0 } else if cfg.tier == "thorough" { 4 } else { 1 };
    let mut seam_pool: Vec<(item::Item, gen::Class, u32)> = Vec::new();
    let mut seam_touching_inputs = 0u64;
    let ultra_out: Mutex<Vec<WorldOutcome>> = Mutex::new(Vec::new());
    // the end-to-end tier (real cargo + rustc) also runs beside the batches
    let rustc_tier_out: Mutex<Option<Result<rustc_tier::TierResult, String>>> = Mutex::new(None);
    std::thread::scope(|scope| {
    if cfg.rustc_tier {
        let (corpus, rustc_tier_out) = (&corpus, &rustc_tier_out);
        scope.spawn(move || {
            plan::SLOT.with(|x| x.set(950));
            let r = rustc_tier::run(cfg, corpus);
            *rustc_tier_out.lock().unwrap() = Some(r);
        });
    }
    for u in 0..n_ultra {
        let (env, corpus, ultra_out) = (&env, &corpus, &ultra_out);
        let mut po = plan_opts(cfg, env, &[], &[]);
        scope.spawn(move || {
            plan::SLOT.with(|x| x.set(900 + u));
            let idx = 1_000_000 + u;
            let ws = world_seed(cfg.seed, idx);
            if po.backend.is_none() {
                po.backend = Some(if u % 2 == 0 { Backend::Syn1 } else { Backend::Syn2 });
            }
            let w = plan::plan_ultra_world(ws, corpus, &po, env);
            if std::env::var("SIM_DUMP_ULTRA").is_ok() {
                for t in &w.texts {
                    eprintln!("--- ultra input {}\n{}", t.0, t.1);
                }
            }
            let o = run_planned_world(env, idx, ws, w, false);
            ultra_out.lock().unwrap().push(o);
        });
    }
    while done < cfg.worlds {
        if t0.elapsed().as_secs() > cfg.wall_cap_s {
            capped = true;
            break;
        }
        let hi = (done + batch).min(cfg.worlds);
        let indices: Vec<usize> = (done..hi).collect();
        let fb: Vec<String> = feedback.iter().cloned().collect();
        let ffb: Vec<String> = fs_feedback.iter().cloned().collect();
        let po = plan_opts_pool(cfg, &env, &fb, &ffb, &seam_pool);
        for o in run_batch(&env, cfg, &corpus, &po, &indices, cfg.jobs) {
            for it in o.seam_items {
                seam_touching_inputs += 1;
                let text = it.0.render();
                if seam_pool.len() < 128 && !seam_pool.iter().any(|x| x.0.render() == text) {
                    seam_pool.push(it);
                }
            }
            if let Some(e) = o.harness_error {
                harness_errors.push(e);
            }
            if let (Some((d, control)), Some(w)) = (o.divergence, o.world) {
                divergences.push((o.idx, o.seed, d, control, w));
            }
            for n in o.env_names {
                if !n.starts_with("SIM_") {
                    feedback.insert(n);
                }
            }
            for n in o.fs_names {
                if fs_feedback.len() < 64 {
                    fs_feedback.insert(n);
                }
            }
            total.merge(o.stats);
        }
        done = hi;
        if std::env::var("SIM_TIMING").is_ok() {
            eprintln!("timing: {} worlds done at {:.1}s", done, t0.elapsed().as_secs_f64());
        }
        // a broken tree fails almost every world; no need to burn the whole budget
        if divergences.len() >= 24 {
            break;
        }
    }
    });
    let mut ultra = ultra_out.into_inner().unwrap();
    ultra.sort_by_key(|o| o.idx);
    let mut ultra_expansions = 0u64;
    for o in ultra {
        if let Some(e) = o.harness_error {
            harness_errors.push(e);
        }
        if let (Some((d, control)), Some(w)) = (o.divergence, o.world) {
            divergences.push((o.idx, o.seed, d, control, w));
        }
        ultra_expansions += o.stats.expansions;
        total.merge(o.stats);
    }
    let worlds_done = done;

    if !harness_errors.is_empty() {
        for e in harness_errors.iter().take(5) {
            eprintln!("harness error: {}", e);
        }
        return 2;
    }

    // harness determinism guard: a sample of worlds is executed a second time and every host
    // log (renderings, probes, shim counters) must be byte-identical
    let mut guard_worlds = 0;
    let mut guard_note = String::from("ok");
    let mut unreplayable: Vec<(usize, u64)> = Vec::new();
    {
        let fb: Vec<String> = vec![];
        let po = plan_opts(cfg, &env, &fb, &fb);
        let n = 8.min(worlds_done);
        for g in 0..n {
            let idx = g * worlds_done / n.max(1);
            let ws = world_seed(cfg.seed, idx);
            let w = plan_world(ws, &corpus, &po);
            let (a, b) = match (exec_world(&env, &w), exec_world(&env, &w)) {
                (Ok(a), Ok(b)) => (a, b),
                (Err(e), _) | (_, Err(e)) => {
                    eprintln!("harness error in determinism guard: {}", e.0);
                    return 2;
                },
            };
            guard_worlds += 1;
            for (la, lb) in a.iter().zip(b.iter()) {
                if la.raw != lb.raw {
                    if la.obs.iter().map(|o| (&o.verdict, &o.text, &o.spans)).ne(lb.obs.iter().map(|o| (&o.verdict, &o.text, &o.spans))) {
                        unreplayable.push((idx, ws));
                        guard_note = format!("world {} rendered differently in two executions of the same plan", idx);
                    } else {
                        eprintln!("harness error: determinism guard: world {} (seed {}) produced different host logs (probes/counters) in two executions", idx, ws);
                        return 2;
                    }
                    break;
                }
            }
        }
    }

    // violations: minimise, write replay files, match against known findings
    let mut exit = 0;
    let mut reports: Vec<Report> = Vec::new();
    let mut known_lines: Vec<String> = Vec::new();
    let mut seen_sigs: BTreeSet<String> = BTreeSet::new();
    let n_div = divergences.len();
    for (idx, ws, d, control, w) in divergences.into_iter().take(6) {
        let mw = minimise::MiniWorld { backend: w.backend, build: w.build, texts: w.texts.clone(), reference: w.hosts[0].clone(), bad: w.hosts[d.host.min(w.hosts.len() - 1)].clone() };
        let item = w.items.get(d.input as usize).cloned();
        // a 65k-expansion history costs ~15 s per judgement and cannot shrink much anyway (the
        // distance between the two expansions *is* the fault): confirm it, reset what can be reset
        let long = w.hosts.iter().any(|h| h.events.len() > 5000);
        let budget = if long { 6 } else if cfg.tier == "thorough" { 400 } else { 160 };
        let m = match minimise::minimise(&env, mw, item, d, budget) {
            Ok(m) => m,
            Err(e) => {
                eprintln!("harness error while minimising world {}: {}", idx, e.0);
                return 2;
            },
        };
        let rep = write_replay(cfg, &env, ws, idx, &m, !control, if control { "found in a control world (no fault enabled): uncontrolled source" } else { "" });
        if !seen_sigs.insert(rep.signature.clone()) {
            let _ = std::fs::remove_file(&rep.path);
            continue;
        }
        if let Some((_, desc)) = known.findings.iter().find(|(s, _)| *s == rep.key) {
            let line = format!("KNOWN-FINDING: property=C19 {} [{}] replay={}", desc, rep.signature, rep.path.display());
            println!("{}", line);
            known_lines.push(line);
        } else {
            println!("violation: world {} ({}): {} :: {}", idx, rep.signature, rep.summary, m.steps.len());
            println!("VIOLATION property=C19 replay={}", rep.path.display());
            exit = 1;
        }
        reports.push(rep);
    }
    for (idx, ws) in &unreplayable {
        println!("violation: world {} (seed {}) rendered differently in two executions of the same plan with every seam controlled (not replayable from the seed)", idx, ws);
        let p = cfg.verif.join("replays").join(format!("C19-{}-{}-unreplayable.json", cfg.seed, idx));
        let _ = std::fs::create_dir_all(cfg.verif.join("replays"));
        let _ = std::fs::write(&p, serde_json::to_string_pretty(&json!({"property": "C19", "replayable": false, "verif_seed": cfg.seed, "world_index": idx, "world_seed": ws.to_string(), "note": "same plan, same seams, different rendering: a source of nondeterminism outside the simulated seams"})).unwrap());
        println!("VIOLATION property=C19 replay={}", p.display());
        exit = 1;
    }

    // tier R: real cargo + rustc + o2o-macros dylib under the shim
    let mut rustc_tier_json = json!({"ran": false});
    if cfg.rustc_tier {
        match rustc_tier_out.into_inner().unwrap().unwrap_or_else(|| Err("the end-to-end tier did not run".to_string())) {
            Ok(r) => {
                for v in r.violation.iter().chain(r.more.iter()) {
                    println!("violation (rustc tier): {}", v.0);
                    println!("VIOLATION property=C19 replay={}", v.1.display());
                    exit = 1;
                }
                rustc_tier_json = r.json;
            },
            Err(e) => {
                eprintln!("harness error (rustc tier): {}", e);
                // never let a harness problem hide a violation that was already found
                if exit == 0 {
                    return 2;
                }
                rustc_tier_json = json!({"ran": false, "harness_error": e});
            },
        }
    }

    // tier M: the host interpreted by Miri under several seeds (thorough)
    let mut miri_tier_json = json!({"ran": false});
    if cfg.miri_tier {
        match miri_tier::run(cfg, &corpus) {
            Ok(r) => {
                if let Some(v) = &r.violation {
                    println!("violation (miri tier): {}", v.0);
                    println!("VIOLATION property=C19 replay={}", v.1.display());
                    exit = 1;
                }
                miri_tier_json = r.json;
            },
            Err(e) => {
                eprintln!("harness error (miri tier): {}", e);
                if exit == 0 {
                    return 2;
                }
            },
        }
    }

    // ---- evidence
    let wall = t0.elapsed().as_secs_f64();
    total.nontrivial.sort();
    total.nontrivial.dedup();
    let sites: BTreeMap<String, Value> = total
        .sites
        .iter()
        .map(|(k, v)| (k.clone(), json!({"iterations": v.iterations, "iterations_with_ge2_entries": v.len_ge2, "delivered_order_differs_from_reference": v.order_differs_from_reference, "delivered_in_non_canonical_order": v.not_canonical, "max_len": v.max_len, "distinct_order_signatures": v.order_sigs.len()})))
        .collect();
    let per_hour = |x: u64| -> u64 { if wall > 0.0 { (x as f64 * 3600.0 / wall) as u64 } else { 0 } };
    let ev = json!({
        "property_id": "C19",
        "tier": cfg.tier,
        "seed": cfg.seed,
        "level": "exploration",
        "wall_s": (wall * 100.0).round() / 100.0,
        "violations": reports.len() - known_lines.len() + unreplayable.len(),
        "coverage": {
            "evaluations": total.expansions,
            "distinct_nontrivial": total.nontrivial.len(),
            "rule": "One evaluation = one expansion of one derive input by the real o2o-impl code inside a simulated build host (a fresh process whose entropy, clock, pid, environment block, cwd, argv, address-space layout, thread placement and expansion history are chosen by the seeded driver) whose rendering (verdict, token text / ordered diagnostics, spans) was compared byte-for-byte with the reference host's rendering of the same input. Inputs come from the seeded grammar W1-W5 (multi-misuse, multi-counterpart, flattening, repeat, enums) and W6 = every derive input found in o2o-tests/tests/*.rs and o2o-impl/src/tests.rs of the tree under test. A case counts towards distinct_nontrivial when (a) the input is order-sensitive -- rejected with >= 2 o2o diagnostics, or accepted with >= 2 impl items, or (hooked build) some unordered container with >= 2 entries was iterated -- and (b) the observing host differs from the reference host in at least one fault dimension that actually fired (different entropy stream, env block, clock, pid, cwd, argv, heap perturbation, non-main thread, different history position, order policy); distinct = distinct (input text hash, fired-fault vector, entropy seed, host history hash).",
            "samples": total.samples,
            "worlds": total.worlds, "control_worlds_all_faults_off": total.control_worlds, "hosts": total.hosts,
            "worlds_planned": cfg.worlds, "wall_cap_hit": capped,
            "runs_per_hour": {"worlds": per_hour(total.worlds), "hosts": per_hour(total.hosts), "expansions": per_hour(total.expansions), "world_seeds": per_hour(total.worlds)},
            "per_backend_build_worlds": total.per_backend_build,
            "inputs": total.inputs, "order_sensitive_inputs": total.order_sensitive_inputs,
            "inputs_per_class": total.per_class_inputs, "reference_verdicts": total.verdicts,
            "max_o2o_diagnostics_in_one_input": total.max_errors_in_one_input, "max_impls_in_one_input": total.max_impls_in_one_input,
            "input_shape_probes": {"note": "how many of the reference observations' inputs have each shape (a probe stuck at 0 is a blind spot of the workload)", "hits": total.shape_probes},
            "corpus": {"items": corpus.items.len(), "files": corpus.files, "from_o2o_tests": corpus.from_tests_dir, "from_unit_tests": corpus.from_unit_tests, "from_readme_and_doc_comments": corpus.from_docs, "source_dictionary_env_names": corpus.dict_env, "source_dictionary_argv": corpus.dict_argv, "source_dictionary_unknown_keywords": corpus.dict_keywords, "source_dictionary_values": corpus.dict_values, "source_dictionary_lifetimes": corpus.dict_lifetimes, "source_dictionary_template_identifiers": corpus.dict_idents},
            "faults": {
                "enabled_in_worlds": total.fault_enabled_worlds,
                "fired_on_hosts": total.fault_fired_hosts,
                "observations_off_main_thread": total.obs_off_main_thread,
                "observations_with_nonempty_history": total.obs_nonempty_prefix,
                "distinct_history_prefix_lengths": total.prefix_lengths.len(),
                "heap_perturbation_events": total.perturb_events,
                "order_policy_events": total.order_policy_events,
                "concurrent_pairs_executed": total.concurrent_pairs, "scheduler_switches_inside_pairs": total.scheduler_switches, "scheduling_points_offered_heap_allocations_blocking_waits_atomic_operations": total.scheduling_points,
                "ultra_marathon_worlds_65536_plus_expansions_in_one_process": n_ultra, "expansions_in_ultra_marathons": ultra_expansions, "marathon_hosts_ge250_expansions": total.marathon_hosts, "longest_history_expansions": total.longest_history,
                "entropy_requests_served_by_shim": total.getrandom_calls, "entropy_bytes_served": total.getrandom_bytes,
            },
            "reads_of_seams_during_expansions": {
                "getrandom": total.getrandom_in_expansion,
                "clock": total.clock_reads_in_expansion,
                "getenv": total.getenv_in_expansion, "getenv_names": total.env_names_in_expansion, "inputs_seen_touching_a_seam": seam_touching_inputs, "seam_pool_size": seam_pool.len(),
                "getpid": total.getpid_in_expansion,
                "writes_to_the_simulated_disk": total.disk_writes_in_expansion,
                "filesystem_and_identity_calls": total.fs_calls_in_expansion, "filesystem_paths_and_identity_calls": total.fs_names_in_expansion,
                "note": "getrandom > 0 is expected (std's RandomState keys, once per thread); clock / getenv / getpid are expected to be 0 on a tree that satisfies the property's 'nothing depends on time or environment' clause by construction; non-zero values are not themselves violations (the output must differ to be one) but are fed back: later worlds always vary the variables that were looked up",
            },
            "simulated_time": {"clock_epochs_offered_ns": [total.sim_clock_min_ns, total.sim_clock_max_ns], "note": "nominal: the expander has no timers; the simulated clock only matters if it is read"},
            "distinct_states": {"measure": "distinct host histories (event sequences incl. thread placement and perturbations) and distinct host fault vectors", "distinct_histories": total.distinct_histories.len(), "distinct_fault_vectors": total.distinct_fault_vectors.len()},
            "hooked_probe_sites": sites,
            "components": {
                "real": ["o2o-impl parse/validate/expand built from the working tree (plain build: guard off = shipped code; second independent build of the same; atom build: guard off, atomic operations compiled as calls into shim/atomrt.c; hooked build: --cfg o2o_verif)", "syn 1.0.109 / syn 2.x, quote, proc-macro2 (fallback mode, span-locations)", "std::collections::HashMap + RandomState/SipHash (plain builds)", "glibc malloc (interposed only to offer scheduling points to members of concurrent groups), real threads, std's futex-based Mutex/RwLock/Once (a wait inside a concurrent group becomes a hand-over + spurious wake-up)"],
                "simulated": ["OS entropy (getrandom, /dev/urandom)", "wall/monotonic clock", "pid", "environment block", "file system as seen during expansions (redirect / absent / durable writes kept or wiped)", "identity (host name, uid, cpu count, executable name, tty)", "cwd", "argv", "address-space layout (ASLR off + seeded heap perturbation + env size)", "thread placement and order of expansions", "interleaving of concurrent expansions (seeded baton; scheduling points: heap allocations, blocking waits, atomic operations in the atom build, seam yield points in the hooked build)", "container hash seeds and iteration order policy (hooked build)"],
                "stubbed": ["proc_macro bridge: the host tier uses proc-macro2's fallback implementation (no rustc); the rustc tier runs the real bridge"],
                "rustc_tier": "real cargo + rustc + o2o-macros dylib under the shim (both back-ends; quick: 2 runs per crate + one run as another package with the dependency renamed, modules reversed and items in other surroundings; thorough: 8 runs per crate + that run)",
            },
            "harness_determinism_guard": {"worlds_executed_twice": guard_worlds, "result": guard_note},
            "aslr_disabled_for_hosts": env.aslr_off,
            "rustc_tier": rustc_tier_json,
            "miri_tier": miri_tier_json,
            "divergent_worlds": n_div,
            "replays": reports.iter().map(|r| json!({"path": r.path.to_string_lossy(), "signature": r.signature})).collect::<Vec<_>>(),
            "known_finding_lines": known_lines,
            "fixed_entries_in_known_findings": known.fixed,
        },
        "assumptions": [
            "sampling, not proof: a clean batch is evidence that no explored (input, host) pair diverges",
            "the libc seams (getrandom, clock_gettime, gettimeofday, time, getpid, getenv) are the only way the expander can observe entropy, time, pid and environment; direct syscalls, rdtsc or /dev/urandom would bypass them -- the control worlds and the determinism guard (same plan twice) are the detector for such leakage",
            "threads are real but serialised at whole-expansion granularity; the expander has no synchronisation points, so intra-expansion races of hypothetical shared state are out of reach",
            "renderings are compared within one (back-end, build) only",
        ],
    });
    if let Some(dir) = cfg.evidence.parent() {
        let _ = std::fs::create_dir_all(dir);
    }
    std::fs::write(&cfg.evidence, serde_json::to_string_pretty(&ev).unwrap()).expect("write evidence");
    println!("C19: worlds={} hosts={} expansions={} distinct_nontrivial={} divergent_worlds={} wall={:.1}s exit={}", total.worlds, total.hosts, total.expansions, total.nontrivial.len(), n_div, wall, exit);
    exit
}

fn cmd_selftest(cfg: &Cfg) -> i32 {
    let env = make_env(cfg);
    let corpus = corpus::load(&cfg.repo);
    let n = cfg.worlds.max(16);
    let po = plan_opts(cfg, &env, &[], &[]);
    let indices: Vec<usize> = (0..n).collect();
    let digest = |outs: &Vec<WorldOutcome>| -> Vec<(usize, u64, u64, bool)> { outs.iter().map(|o| (o.idx, o.stats.expansions, o.stats.getrandom_calls ^ (o.stats.nontrivial.iter().fold(0u64, |a, b| a.rotate_left(3) ^ b)), o.divergence.is_some())).collect() };
    let a = run_batch(&env, cfg, &corpus, &po, &indices, 1);
    let b = run_batch(&env, cfg, &corpus, &po, &indices, 16);
    if a.iter().any(|o| o.harness_error.is_some()) || b.iter().any(|o| o.harness_error.is_some()) {
        eprintln!("selftest: harness error: {:?}", a.iter().chain(b.iter()).find_map(|o| o.harness_error.clone()));
        return 2;
    }
    let mut bad = 0;
    if digest(&a) != digest(&b) {
        eprintln!("selftest: per-world digests differ between worker counts 1 and 16");
        bad += 1;
    }
    // full host logs, twice each
    for idx in 0..n {
        let w = plan_world(world_seed(cfg.seed, idx), &corpus, &po);
        let (Ok(x), Ok(y)) = (exec_world(&env, &w), exec_world(&env, &w)) else {
            eprintln!("selftest: harness error executing world {}", idx);
            return 2;
        };
        if x.iter().map(|l| &l.raw).ne(y.iter().map(|l| &l.raw)) {
            eprintln!("selftest: world {} produced different host logs in two executions", idx);
            if std::env::var("SIM_SELFTEST_DIFF").is_ok() {
                for (la, lb) in x.iter().zip(y.iter()) {
                    for (a, b) in la.raw.lines().zip(lb.raw.lines()) {
                        if a != b {
                            eprintln!("   first differing line: {}", first_diff(a, b));
                            break;
                        }
                    }
                }
            }
            bad += 1;
        }
    }
    // address-space layout: identical for identical hosts (ASLR off), shifted by the env block
    {
        let texts: Vec<(u32, String)> = vec![(0, "#[map(A)] struct S { x: i32 }".to_string())];
        let mut a = HostCfg::reference();
        a.events = vec![Event::Expand { tid: 0, input: 0 }, Event::Addr];
        let mut b = a.clone();
        b.env = vec![("SIM_JUNK".to_string(), "j".repeat(3000))];
        let mut c = a.clone();
        c.events = vec![Event::Perturb { tid: 0, n: 200, seed: 7 }, Event::Expand { tid: 0, input: 0 }, Event::Addr];
        let run = |h: &HostCfg| run_host(&env, Backend::Syn1, Build::Plain, &texts, h).map(|l| l.addrs.join(" "));
        match (run(&a), run(&a), run(&b), run(&c)) {
            (Ok(a1), Ok(a2), Ok(b1), Ok(c1)) => {
                println!("selftest: layout: same host twice: {} / {}; larger env block: {}; after heap perturbation: {}", a1, a2, b1, c1);
                if a1 != a2 {
                    println!("selftest: WARNING: address-space randomisation is NOT off for hosts (personality refused?): the heap/layout fault is observed but not replayable in this environment");
                }
            },
            _ => {
                eprintln!("selftest: harness error in the layout probe");
                return 2;
            },
        }
    }
    println!("selftest: {} worlds x (1 worker, 16 workers) digests compared, {} worlds executed twice with full log diff: {} mismatches", n, n, bad);
    if bad == 0 {
        0
    } else {
        2
    }
}

static ASLR_OFF: AtomicUsize = AtomicUsize::new(0);

fn main() {
    if plan::disable_aslr_for_children() {
        ASLR_OFF.store(1, Ordering::SeqCst);
    }
    let args: Vec<String> = std::env::args().collect();
    let cmd = args.get(1).map(|s| s.as_str()).unwrap_or("run");
    // scratch areas of earlier runs
    let _ = std::fs::remove_dir_all(PathBuf::from(env_or("SIM_BUILD_DIR", "/verif/build/repo")).join("simfs"));
    let mut cfg = Cfg {
        verif: PathBuf::from(env_or("VERIF_DIR", "/verif")),
        repo: PathBuf::from(env_or("O2O_REPO", "/repo")),
        build_dir: PathBuf::from(env_or("SIM_BUILD_DIR", "/verif/build/repo")),
        seed: env_or("VERIF_SEED", "20260926").parse().unwrap_or(20260926),
        tier: env_or("VERIF_TIER", "quick"),
        worlds: 0,
        jobs: env_or("SIM_JOBS", "16").parse().unwrap_or(16),
        wall_cap_s: 0,
        backend: None,
        build: None,
        rustc_tier: false,
        miri_tier: false,
        evidence: PathBuf::new(),
    };
    let mut replay_path: Option<PathBuf> = None;
    let mut i = 2;
    while i < args.len() {
        match args[i].as_str() {
            "--tier" => {
                cfg.tier = args[i + 1].clone();
                i += 1;
            },
            "--worlds" => {
                cfg.worlds = args[i + 1].parse().unwrap_or(0);
                i += 1;
            },
            "--backend" => {
                cfg.backend = Backend::parse(&args[i + 1]);
                i += 1;
            },
            "--build" => {
                cfg.build = Build::parse(&args[i + 1]);
                i += 1;
            },
            "--rustc-tier" => cfg.rustc_tier = true,
            "--no-rustc-tier" => cfg.rustc_tier = false,
            "--miri-tier" => cfg.miri_tier = true,
            "--no-miri-tier" => cfg.miri_tier = false,
            "--replay" => {
                replay_path = Some(PathBuf::from(&args[i + 1]));
                i += 1;
            },
            "--evidence" => {
                cfg.evidence = PathBuf::from(&args[i + 1]);
                i += 1;
            },
            x => {
                eprintln!("unknown argument {}", x);
                std::process::exit(2);
            },
        }
        i += 1;
    }
    if cfg.tier != "quick" && cfg.tier != "thorough" {
        cfg.tier = "quick".into();
    }
    if cfg.worlds == 0 {
        cfg.worlds = if cfg.tier == "thorough" { env_or("SIM_THOROUGH_WORLDS", "40000").parse().unwrap_or(40000) } else { 1500 };
    }
    cfg.wall_cap_s = if cfg.tier == "thorough" { env_or("SIM_WALL_CAP_S", "900").parse().unwrap_or(900) } else { 150 };
    if !args.iter().any(|a| a == "--no-rustc-tier") {
        cfg.rustc_tier = true;
    }
    if cfg.tier == "thorough" && !args.iter().any(|a| a == "--no-miri-tier") {
        cfg.miri_tier = true;
    }
    if cfg.evidence.as_os_str().is_empty() {
        cfg.evidence = cfg.verif.join("evidence/C19.json");
    }
    let code = match cmd {
        "run" => cmd_run(&cfg),
        "replay" => match replay_path {
            Some(p) => cmd_replay(&cfg, &p),
            None => {
                eprintln!("replay needs --replay <path>");
                2
            },
        },
        "selftest" => cmd_selftest(&cfg),
        "miri-tier" => match miri_tier::run(&cfg, &corpus::load(&cfg.repo)) {
            Ok(r) => {
                println!("{}", serde_json::to_string_pretty(&r.json).unwrap());
                if let Some(v) = r.violation {
                    println!("violation (miri tier): {}", v.0);
                    println!("VIOLATION property=C19 replay={}", v.1.display());
                    1
                } else {
                    0
                }
            },
            Err(e) => {
                eprintln!("harness error (miri tier): {}", e);
                2
            },
        },
        "rustc-tier-prepare" => match rustc_tier::prepare(&cfg) {
            Ok(()) => 0,
            Err(e) => {
                eprintln!("harness error (rustc tier prepare): {}", e);
                2
            },
        },
        "rustc-tier" => match rustc_tier::run(&cfg, &corpus::load(&cfg.repo)) {
            Ok(r) => {
                println!("{}", serde_json::to_string_pretty(&r.json).unwrap());
                if let Some(v) = r.violation {
                    println!("violation (rustc tier): {}", v.0);
                    println!("VIOLATION property=C19 replay={}", v.1.display());
                    1
                } else {
                    0
                }
            },
            Err(e) => {
                eprintln!("harness error (rustc tier): {}", e);
                2
            },
        },
        "corpus" => {
            let c = corpus::load(&cfg.repo);
            println!("{} items from {} files", c.items.len(), c.files);
            for it in c.items.iter().take(3) {
                println!("---- {}\n{}", it.origin, it.render());
            }
            0
        },
        "genstats" => {
            // generator tuning aid: verdict / message histogram per workload class
            let env = make_env(&cfg);
            let c = corpus::load(&cfg.repo);
            let mut rng = Rng::new(cfg.seed);
            for class in gen::CLASSES {
                let n = cfg.worlds.max(100);
                let items: Vec<item::Item> = (0..n).map(|_| gen::generate(&mut rng, &c, class)).collect();
                let texts: Vec<(u32, String)> = items.iter().enumerate().map(|(i, it)| (i as u32, it.render())).collect();
                let mut h = HostCfg::reference();
                // (distinct simulated pids: tools/coverage.sh names its profile files by pid)
                h.pid = 1000 + class as u32;
                h.events = (0..n as u32).map(|i| Event::Expand { tid: 0, input: i }).collect();
                let log = run_host(&env, cfg.backend.unwrap_or(Backend::Syn1), cfg.build.unwrap_or(Build::Hooked), &texts, &h).expect("host");
                let mut verdicts: BTreeMap<String, usize> = BTreeMap::new();
                let mut msgs: BTreeMap<String, usize> = BTreeMap::new();
                let mut nerr: BTreeMap<usize, usize> = BTreeMap::new();
                let mut nimpl: BTreeMap<usize, usize> = BTreeMap::new();
                let mut dumped = 0;
                for o in &log.obs {
                    if let Ok(pat) = std::env::var("SIM_DUMP_MATCH") {
                        if dumped < 4 && o.text.contains(&pat) && o.text.matches('\u{1f}').count() <= 1 {
                            dumped += 1;
                            println!("--- MATCH {}\n{}", o.text, texts[o.input as usize].1);
                        }
                    }
                    if o.verdict == "PANIC" && dumped < 3 && std::env::var("SIM_DUMP_PANICS").is_ok() {
                        dumped += 1;
                        println!("--- PANIC {}\n{}", o.text, texts[o.input as usize].1);
                    }
                    *verdicts.entry(o.verdict.clone()).or_default() += 1;
                    match o.verdict.as_str() {
                        "PANIC" | "PARSE" => *msgs.entry(format!("{}: {}", o.verdict, &o.text[..o.text.len().min(90)])).or_default() += 1,
                        "ERR" => {
                            let k = o.text.matches('\u{1f}').count();
                            *nerr.entry(k).or_default() += 1;
                            if k == 1 {
                                *msgs.entry(format!("ERR1: {}", &o.text[..o.text.len().min(90)])).or_default() += 1
                            } else if std::env::var("SIM_ALL_MSGS").is_ok() {
                                for m in o.text.split('\u{1f}').skip(1).filter(|m| !m.is_empty()) {
                                    let m: String = m.chars().map(|c| if c.is_ascii_digit() { '#' } else { c }).collect();
                                    *msgs.entry(format!("ERRn: {}", &m[..m.char_indices().nth(70).map(|x| x.0).unwrap_or(m.len())])).or_default() += 1
                                }
                            }
                        },
                        _ => *nimpl.entry(o.text.matches("impl ").count()).or_default() += 1,
                    }
                }
                println!("== {} {:?}\n   errors/input {:?}\n   impls/input {:?}", class.tag(), verdicts, nerr, nimpl);
                let mut v: Vec<_> = msgs.into_iter().collect();
                v.sort_by(|a, b| b.1.cmp(&a.1));
                for (m, k) in v.into_iter().take(12) {
                    println!("   {:4} {}", k, m);
                }
            }
            0
        },
        "gen" => {
            let c = corpus::load(&cfg.repo);
            let mut rng = Rng::new(cfg.seed);
            for k in 0..cfg.worlds.min(60) {
                let class = gen::CLASSES[k % 7];
                let it = gen::generate(&mut rng, &c, class);
                println!("---- {}\n{}", it.origin, it.render());
            }
            0
        },
        _ => {
            eprintln!("usage: driver run|replay|selftest [--tier quick|thorough] [--worlds N] [--replay path]");
            2
        },
    };
    std::process::exit(code);
}

#[allow(dead_code)]
fn _keep(_: &[(u32, &str)]) {
    let _ = ALL_FAULTS;
    let _ = F_THREAD | F_HISTORY;
}
