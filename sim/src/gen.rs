//! Seeded workload generator (DESIGN.md 3.3).  Its only purpose is to put the expander in
//! states where an environmental fault could show: >= 2 entries in every unordered
//! container, >= 2 of everything that is emitted in some order (impls, fields, groups,
//! ghosts, predicates, variants, diagnostics).  It makes no claim about *what* o2o should
//! produce for these inputs -- the oracle is self-consistency across hosts.

use crate::corpus::Corpus;
use crate::item::{Item, Member, Shape};
use crate::prng::Rng;

#[derive(Clone, Copy, PartialEq, Eq, Debug, PartialOrd, Ord)]
pub enum Class {
    W1MultiMisuse,
    W2MultiCounterpart,
    W3Flatten,
    W4Repeat,
    W5Enum,
    W6Corpus,
    W7CorpusMutant,
}

pub const CLASSES: [Class; 7] = [Class::W1MultiMisuse, Class::W2MultiCounterpart, Class::W3Flatten, Class::W4Repeat, Class::W5Enum, Class::W6Corpus, Class::W7CorpusMutant];

impl Class {
    pub fn tag(self) -> &'static str {
        match self {
            Class::W1MultiMisuse => "W1",
            Class::W2MultiCounterpart => "W2",
            Class::W3Flatten => "W3",
            Class::W4Repeat => "W4",
            Class::W5Enum => "W5",
            Class::W6Corpus => "W6",
            Class::W7CorpusMutant => "W7",
        }
    }
}

// a small pool on purpose: inputs of one world share type names, so that a cache or
// registry keyed by name (history dependence) would collide
const TYPE_NAMES: [&str; 5] = ["Entity", "EntityDto", "Record", "Node", "Item"];
const COUNTERPARTS: [&str; 26] = [
    "(i32, String)", "(u8, T, Vec<u8>)", "Holder<'static>", "Anon<'_>", "Größe", "deeply::nested::module::path::to::a::Type<Vec<Option<Box<[&'d str; 3]>>>>",
    "EntityDto", "Entity", "Model", "Dto", "Other", "wire::Msg", "crate::api::Rec", "Pair<T>", "Wrapper<'a>", "Zed", "Alpha", "Beta",
    // generic arguments of every kind: top-level and nested lifetimes, several of each, const args
    "Pair<&'x str, &'y str>", "Both<'p, 'q>", "Gen<T, U>", "Nested<Vec<&'m T>, &'n [u8], Option<&'k str>>", "Mixed<'a, 'z, T, 3>", "Cow<'c, str>", "::ext::Abs<'e, 'f, 'g>", "Arr<[&'r u8; 2], fn(&'s i32) -> &'s i32>",
];
const FIELD_NAMES: [&str; 14] = ["id", "name", "value", "count", "flag", "data", "extra", "score", "left", "right", "größe", "имя", "名前", "a_rather_long_field_name_that_goes_on_and_on_and_on_for_quite_a_while_0123456789"];
const OTHER_NAMES: [&str; 11] = ["ident", "title", "amount", "total", "enabled", "payload", "misc", "points", "höhe", "r#type", "another_rather_long_name_on_the_other_side_of_the_mapping_9876543210"];
const FIELD_TYPES: [&str; 16] = ["i32", "String", "u8", "f32", "bool", "Vec<u8>", "Option<String>", "i64", "u16", "&'static str", "(i32, String)", "[u8; 4]", "Box<dyn Fn(i32) -> i32>", "std::collections::BTreeMap<String, Vec<Option<u8>>>", "fn(&str) -> usize", "crate::inner::Child"];
const ERR_TYPES: [&str; 3] = ["String", "anyhow::Error", "MyErr"];
const VARIANT_NAMES: [&str; 8] = ["Ok", "NotFound", "Pending", "Done", "Left", "Right", "Empty", "Full"];

const BUNDLES: [&[&str]; 22] = [
    // a single kind: the counterpart is looked at by exactly one of the per-kind passes
    &["from_owned"],
    &["owned_into"],
    &["ref_into"],
    &["from_ref"],
    &["owned_into_existing"],
    &["try_from_owned"],
    &["map"],
    &["from"],
    &["into"],
    &["map_owned"],
    &["map_ref"],
    &["from_owned", "ref_into"],
    &["owned_into", "from_ref"],
    &["map", "into_existing"],
    &["from_owned", "from_ref", "owned_into", "ref_into"],
    &["into", "owned_into_existing", "ref_into_existing"],
    &["try_map"],
    &["try_from", "into"],
    &["try_into", "from"],
    &["try_map_owned", "ref_into"],
    &["map", "try_into_existing"],
    &["owned_try_into", "ref_try_into", "try_from_owned", "try_from_ref"],
];

/// which of the six conversion kinds an instruction name covers, as a bit mask (+64 if fallible)
fn kind_mask(instr: &str) -> u32 {
    let base = instr.replace("try_", "");
    let m = match base.as_str() {
        "map" => 0b001111,
        "from" => 0b001100,
        "into" => 0b000011,
        "map_owned" => 0b000101,
        "map_ref" => 0b001010,
        "from_owned" => 0b000100,
        "from_ref" => 0b001000,
        "owned_into" => 0b000001,
        "ref_into" => 0b000010,
        "into_existing" => 0b110000,
        "owned_into_existing" => 0b010000,
        "ref_into_existing" => 0b100000,
        _ => 0,
    };
    m
}

fn is_fallible(instr: &str) -> bool {
    instr.contains("try_")
}

/// Counterpart names for one item: mostly from the small shared pool (inputs of a world
/// collide on names on purpose), sometimes fresh numbered names (an unbounded supply of
/// distinct type paths: interners, caches with a capacity, tables that fill up).
fn counterparts(rng: &mut Rng, n: usize) -> Vec<String> {
    let mut v: Vec<String> = pick_distinct(rng, &COUNTERPARTS, n).into_iter().map(|s| s.to_string()).collect();
    for c in v.iter_mut() {
        if rng.chance(1, 6) {
            // composed generic arguments: any mix of lifetimes (named, repeated, 'static, '_),
            // types that nest lifetimes, plain types and const arguments
            let base = *rng.pick(&["View", "Pair", "Holder", "Entity", "Wire", "api::Resp"]);
            let n = rng.range(1, 5);
            let mut args: Vec<String> = Vec::new();
            for _ in 0..n {
                let lt = *rng.pick(&["'a", "'b", "'x", "'y", "'z", "'static", "'_", "'x", "'long_lifetime_name"]);
                args.push(match rng.below(9) {
                    0 | 1 | 2 => lt.to_string(),
                    3 => format!("&{} str", lt),
                    4 => format!("Vec<&{} T>", lt),
                    5 => format!("Cow<{}, str>", lt),
                    6 => "T".to_string(),
                    7 => "i32".to_string(),
                    _ => "3".to_string(),
                });
            }
            // lifetimes first, as the grammar wants
            args.sort_by_key(|a| if a.starts_with('\'') { 0 } else { 1 });
            *c = format!("{}<{}>", base, args.join(", "));
            continue;
        }
        if rng.chance(1, 5) {
            *c = match rng.below(3) {
                0 => format!("Gen{}", rng.below(5000)),
                1 => format!("m{}::Ty{}", rng.below(50), rng.below(100)),
                _ => format!("Dto{}<'l{}>", rng.below(5000), rng.below(9)),
            };
        }
    }
    let mut k = 0;
    while v.len() < n {
        v.push(format!("Many{}", k));
        k += 1;
    }
    if v.len() >= 2 && rng.chance(1, 10) {
        // a family of near-duplicates: names that differ only in zero padding, case, a trailing
        // underscore, a common prefix, a raw-identifier prefix -- what a "natural" comparator,
        // a case-folding table or a normaliser would confuse
        let fam = near_duplicates(rng);
        for (i, c) in v.iter_mut().enumerate() {
            if i < fam.len() {
                *c = fam[i].clone();
            }
        }
    }
    v.dedup();
    v
}

pub fn near_duplicates(rng: &mut Rng) -> Vec<String> {
    let base = *rng.pick(&["T", "Dto", "Entity", "Rec"]);
    let n = rng.below(100);
    let mut fam = match rng.below(6) {
        0 => vec![format!("{}{}", base, n), format!("{}0{}", base, n), format!("{}00{}", base, n), format!("{}{}0", base, n)],
        1 => vec![format!("{}x", base), format!("{}X", base), base.to_uppercase(), base.to_lowercase()],
        2 => vec![base.to_string(), format!("{}_", base), format!("{}__", base), format!("_{}", base)],
        3 => vec![format!("{}A", base), format!("{}AB", base), format!("{}ABC", base), format!("{}B", base)],
        4 => vec![format!("m::{}", base), format!("m ::{}", base), format!("::m::{}", base), format!("m::m::{}", base)],
        _ => vec![format!("{}{}", base, n), format!("{}{}", base, n + 1), format!("{}{}", base, n * 10), format!("{}{}", base, n + 10)],
    };
    rng.shuffle(&mut fam);
    fam
}

fn pick_distinct<'a>(rng: &mut Rng, pool: &[&'a str], n: usize) -> Vec<&'a str> {
    let mut v: Vec<&str> = pool.to_vec();
    rng.shuffle(&mut v);
    v.truncate(n.min(pool.len()));
    v
}

const EXPR_POOL: [&str; 22] = [
    "~.clone()", "@.id + 1", "~ as i64", "{ ~.to_string() }", "Default::default()", "@.name.len() as i32", "~.into()", "{ let x = ~; [x, @.id](0) }", "~?", "(@.left, ~)",
    // every token form an inline expression can carry
    "{ b\"bytes\".len() as u8 + ~ }", "1.5e3_f64 * ~ as f64", "0xFFu8 & ~", "{ if @.flag { 'c' } else { '\\n' } }", "r#\"raw \" string\"#.into()", "format!(\"{}-{:?}\", @.id, ~)", "{ match ~ { Some(v) => v, None => 0 } }", "@.items.iter().map(|x| x + 1).collect::<Vec<_>>()",
    "{ 'l: loop { break 'l ~; } }", "&mut *~", "<_ as Into<i64>>::into(~)", "{ #[allow(unused)] let y = ~; y }",
];

/// A random expression: `@` and `~` at any nesting depth of parentheses, brackets and braces,
/// every literal kind, macros, closures, paths with turbofish, blocks.
fn compose_expr(rng: &mut Rng, depth: usize) -> String {
    if depth == 0 || rng.chance(1, 4) {
        return rng.pick(&["~", "@", "@.id", "~.0", "@.name", "1", "\"s\"", "x", "Self::K", "b'c'", "2.5", "'q'", "r#type", "None", "~.len()", "@.inner.deep.value"]).to_string();
    }
    let a = compose_expr(rng, depth - 1);
    let b = compose_expr(rng, depth - 1);
    match rng.below(16) {
        0 => format!("{} + {}", a, b),
        1 => format!("{}.{}({})", a, rng.pick(&["map", "push", "min", "cmp", "get"]), b),
        2 => format!("({}, {})", a, b),
        3 => format!("[{}, {}]", a, b),
        4 => format!("{{ let t = {}; {} }}", a, b),
        5 => format!("{}({})", rng.pick(&["f", "Some", "Self::new", "convert::<u8>", "crate::util::fix"]), a),
        6 => format!("{} as {}", a, rng.pick(&["i64", "u8", "f32", "usize"])),
        7 => format!("&{}", a),
        8 => format!("{}?", a),
        9 => format!("{}!({}, {})", rng.pick(&["vec", "format", "matches", "my_macro"]), a, b),
        10 => format!("|v| {}", a),
        11 => format!("if {} {{ {} }} else {{ {} }}", a, b, compose_expr(rng, depth - 1)),
        12 => format!("match {} {{ Some(v) => {}, _ => Default::default() }}", a, b),
        13 => format!("{{ [({}, {{ {} }})] }}", a, b),
        14 => format!("{}..={}", a, b),
        _ => format!("*{}.as_ref()", a),
    }
}

/// the expression buried under 8..40 levels of parentheses, brackets and braces
fn deep_wrap(rng: &mut Rng, inner: String) -> String {
    let depth = rng.range(8, 40);
    let mut s = inner;
    for _ in 0..depth {
        s = match rng.below(4) {
            0 => format!("({})", s),
            1 => format!("[{}][0]", s),
            2 => format!("{{ {} }}", s),
            _ => format!("f({}, 1)", s),
        };
    }
    s
}

fn expr(rng: &mut Rng) -> String {
    let e = if rng.chance(1, 3) {
        let d = rng.range(1, 3);
        compose_expr(rng, d)
    } else {
        rng.pick(&EXPR_POOL).to_string()
    };
    if rng.chance(1, 25) {
        deep_wrap(rng, e)
    } else {
        e
    }
}

fn default_expr(rng: &mut Rng) -> String {
    if rng.chance(1, 40) {
        let inner = rng.pick(&["~.id", "@.name", "~", "@"]).to_string();
        return format!("{{ {} }}", deep_wrap(rng, inner));
    }
    if rng.chance(1, 4) {
        let d = rng.range(1, 2);
        format!("{{ {} }}", compose_expr(rng, d))
    } else {
        rng.pick(&["{ 1 }", "{ Default::default() }", "{ @.id.to_string() }", "{ None }", "{ vec![1, 2] }", "{ \"x\".into() }", "{ ~.id + 1 }", "{ (~0, [@.name.clone()]) }"]).to_string()
    }
}

struct TraitOpts {
    hint: &'static str,
    params: bool,
    enum_ctx: bool,
    repeat_params: bool,
    /// 0 = unknown (anything goes), 1 = no repeat() open for this instruction name, 2 = one is open
    repeat_state: u8,
}

fn trait_params(rng: &mut Rng, o: &TraitOpts) -> String {
    let mut parts: Vec<String> = Vec::new();
    if o.repeat_params {
        let r = match o.repeat_state {
            1 => rng.below(2),
            2 => 2 + rng.below(3),
            _ => rng.below(5),
        };
        match r {
            0 => parts.push("repeat()".into()),
            1 => parts.push("repeat(vars)".into()),
            2 => parts.push("skip_repeat".into()),
            3 => parts.push("stop_repeat".into()),
            _ => parts.push("stop_repeat, repeat(vars, update)".into()),
        }
    }
    if rng.chance(1, 2) {
        let n = rng.range(1, 3);
        let names = pick_distinct(rng, &["a", "b", "tmp", "k"], n);
        let vs: Vec<String> = names.iter().map(|n| format!("{}: {}", n, default_expr(rng))).collect();
        parts.push(format!("vars({})", vs.join(", ")));
    }
    if rng.chance(1, 3) {
        parts.push(format!("attribute({})", rng.pick(&["inline", "allow(unused)", "doc = \"x\"", "cfg(any())"])));
    }
    if rng.chance(1, 4) {
        parts.push("impl_attribute(allow(clippy::all))".into());
    }
    if rng.chance(1, 4) {
        parts.push("inner_attribute(allow(unused_variables))".into());
    }
    let mut s = parts.join(", ");
    let tail = match rng.below(6) {
        0 => Some(rng.pick(&["..Default::default()", "..~.clone()", "..{ let d = ~Default::default(); d }"]).to_string()),
        1 if !o.enum_ctx => Some(format!("return {}", rng.pick(&["@.into_inner()", "Self::new(@.id)", "{ todo!() }", "~0.to_string()", "{ (~.id, @.name) }"]))),
        2 if o.enum_ctx => Some(format!("_ {}", rng.pick(&["todo!()", "panic!(\"x\")", "Err(\"no\".into())?"]))),
        3 => Some("..@.rest()".to_string()),
        _ => None,
    };
    if let Some(t) = tail {
        if !s.is_empty() {
            s.push_str(", ");
        }
        s.push_str(&t);
    }
    s
}

fn trait_attr_body(rng: &mut Rng, instr: &str, cp: &str, o: &TraitOpts) -> String {
    // a nameless tuple counterpart takes no type hint
    let mut s = format!("{}({}{}", instr, cp, if cp.starts_with('(') { "" } else { o.hint });
    if is_fallible(instr) {
        s.push_str(", ");
        s.push_str(*rng.pick(&ERR_TYPES));
    }
    if o.params {
        let p = trait_params(rng, o);
        if !p.is_empty() {
            s.push_str("| ");
            s.push_str(&p);
        }
    }
    s.push(')');
    s
}

fn wrap(bodies: Vec<String>, rng: &mut Rng) -> Vec<String> {
    // bare `#[instr(..)]`, individual `#[o2o(instr(..))]`, or grouped `#[o2o(a(..), b(..))]`
    match rng.below(4) {
        0 if bodies.len() > 1 => {
            let cut = rng.range(1, bodies.len());
            let mut out = vec![format!("#[o2o({})]", bodies[..cut].join(", "))];
            out.extend(bodies[cut..].iter().map(|b| format!("#[{}]", b)));
            out
        },
        1 => bodies.iter().map(|b| if rng.chance(1, 2) { format!("#[o2o({})]", b) } else { format!("#[{}]", b) }).collect(),
        _ => bodies.iter().map(|b| format!("#[{}]", b)).collect(),
    }
}

fn predicate(rng: &mut Rng) -> String {
    let subj = *rng.pick(&["T", "U", "V", "i32", "Vec<T>", "&'a T", "Option<U>", "[T; 2]"]);
    let bound = *rng.pick(&["Clone", "Copy + Default", "Into<i32>", "'static", "From<U>", "Iterator<Item = T>", "?Sized", "'a", "PartialEq<V> + Send", "Fn(&T) -> U"]);
    match rng.below(8) {
        0 => format!("for<'x> &'x {}: {}", subj, bound),
        1 => "'a: 'b".to_string(),
        _ => format!("{}: {}", subj, bound),
    }
}

fn generics(rng: &mut Rng, item: &mut Item) {
    match rng.below(10) {
        0 => {
            item.generics = "<T>".into();
        },
        1 => {
            item.generics = "<T: Clone, U>".into();
            item.where_clause = "where U: Default + Copy".into();
        },
        2 => {
            item.generics = "<'a, 'b, T>".into();
        },
        3 => {
            item.generics = "<'a, T, const N: usize>".into();
            item.where_clause = "where T: 'a".into();
        },
        4 => {
            item.generics = "<'a: 'b, 'b, T: ?Sized + 'a, U = i32>".into();
            item.where_clause = "where for<'x> &'x T: PartialEq, U: Iterator<Item = &'b str>".into();
        },
        5 | 6 => {
            // composed parameter list: 0..3 lifetimes (with outlives bounds), 0..3 type
            // parameters (with bounds, trailing defaults), optional const parameter
            let mut ps: Vec<String> = Vec::new();
            let nl = rng.range(0, 3);
            for (i, l) in ["'a", "'b", "'c"].iter().take(nl).enumerate() {
                if i > 0 && rng.chance(1, 3) {
                    ps.push(format!("{}: 'a", l));
                } else {
                    ps.push(l.to_string());
                }
            }
            let nt = rng.range(if nl == 0 { 1 } else { 0 }, 3);
            let defaults_from = if rng.chance(1, 4) { rng.range(0, nt) } else { nt };
            let mut ty_params: Vec<String> = Vec::new();
            for (i, t) in ["T", "U", "V"].iter().take(nt).enumerate() {
                let mut p = t.to_string();
                if rng.chance(1, 2) {
                    p.push_str(&format!(": {}", rng.pick(&["Clone", "Default + Copy", "?Sized", "Into<i32>", "Iterator<Item = u8>", "Fn() -> i32"])));
                }
                if i >= defaults_from {
                    p.push_str(*rng.pick(&[" = i32", " = String", " = ()"]));
                }
                ty_params.push(p);
            }
            let has_const = rng.chance(1, 4);
            if has_const && defaults_from < nt {
                // const parameters may not follow defaulted type parameters in every edition: put it first
                ps.push("const N: usize".to_string());
                ps.extend(ty_params);
            } else {
                ps.extend(ty_params);
                if has_const {
                    ps.push("const N: usize".to_string());
                }
            }
            item.generics = format!("<{}>", ps.join(", "));
            let nw = rng.range(0, 3);
            if nw > 0 {
                let preds: Vec<String> = (0..nw).map(|_| predicate(rng)).collect();
                item.where_clause = format!("where {}", preds.join(", "));
            }
        },
        _ => {},
    }
}

fn where_attrs(rng: &mut Rng, cps: &[&str], out: &mut Vec<String>) {
    let preds = |rng: &mut Rng| -> String {
        if rng.chance(1, 2) {
            let n = rng.range(1, 4);
            (0..n).map(|_| predicate(rng)).collect::<Vec<_>>().join(", ")
        } else {
            rng.pick(&["T: Clone", "T: Clone, U: Copy + Default", "T: Into<i32>, i32: From<U>, U: 'static", "T: Copy", "T: Default, U: Clone", "for<'x> &'x T: Into<U>, U: Sized"]).to_string()
        }
    };
    if rng.chance(1, 3) {
        let p = preds(rng);
        out.push(format!("where_clause({})", p));
    }
    for cp in cps {
        if rng.chance(1, 4) {
            let p = preds(rng);
            out.push(format!("where_clause({}| {})", cp, p));
        }
    }
}

fn ghosts_attrs(rng: &mut Rng, cps: &[&str], out: &mut Vec<String>) {
    let instr = |rng: &mut Rng| *rng.pick(&["ghosts", "ghosts", "ghosts_owned", "ghosts_ref"]);
    let data = |rng: &mut Rng| {
        let n = rng.range(1, 4);
        let names = pick_distinct(rng, &["g1", "g2", "ghost_a", "ghost_b", "zz"], n);
        names.iter().map(|n| format!("{}: {}", n, default_expr(rng))).collect::<Vec<_>>().join(", ")
    };
    if rng.chance(1, 3) {
        let i = instr(rng);
        let d = data(rng);
        out.push(format!("{}({})", i, d));
    }
    for cp in cps {
        if rng.chance(1, 4) {
            let i = instr(rng);
            let d = data(rng);
            out.push(format!("{}({}| {})", i, cp, d));
        }
    }
}

fn member_instr(rng: &mut Rng, cps: &[&str], named_cp: bool, idx: usize, fallible_ok: bool) -> String {
    let mut names = vec!["map", "map", "from", "into", "map_owned", "map_ref", "from_owned", "from_ref", "owned_into", "ref_into", "into_existing", "owned_into_existing", "ref_into_existing"];
    if fallible_ok {
        names.extend(["try_map", "try_from", "try_into", "owned_try_into", "try_from_ref"]);
    }
    let instr = *rng.pick(&names);
    let ded = if rng.chance(1, 3) && !cps.is_empty() { format!("{}| ", rng.pick(cps)) } else { String::new() };
    let other = if named_cp { rng.pick(&OTHER_NAMES).to_string() } else { idx.to_string() };
    let body = match rng.below(4) {
        0 => other,
        1 => format!("{}, {}", other, expr(rng)),
        2 => expr(rng).to_string(),
        _ => other,
    };
    format!("{}({}{})", instr, ded, body)
}

fn ghost_instr(rng: &mut Rng, cps: &[&str], with_default: bool) -> String {
    let instr = *rng.pick(&["ghost", "ghost", "ghost_owned", "ghost_ref"]);
    let ded = if rng.chance(1, 3) && !cps.is_empty() { Some(*rng.pick(cps)) } else { None };
    match (ded, with_default) {
        (Some(c), true) => format!("{}({}| {})", instr, c, default_expr(rng)),
        (Some(c), false) => format!("{}({})", instr, c),
        (None, true) => format!("{}({})", instr, default_expr(rng)),
        (None, false) => instr.to_string(),
    }
}

fn field_decl(rng: &mut Rng, shape: Shape, name: &str, generic: bool) -> String {
    let ty = if generic && rng.chance(1, 4) { "T" } else { *rng.pick(&FIELD_TYPES) };
    match shape {
        Shape::Named => format!("{}: {}", name, ty),
        _ => ty.to_string(),
    }
}

/// W2: several counterparts x several kinds, dedicated type-level instructions, ghosts with
/// and without defaults, mixed member instructions.
pub fn gen_struct(rng: &mut Rng, class: Class) -> Item {
    let mut item = Item { type_attrs: vec![], is_enum: false, name: rng.pick(&TYPE_NAMES).to_string(), generics: String::new(), where_clause: String::new(), shape: Shape::Named, members: vec![], origin: class.tag().to_string(), raw: None };
    generics(rng, &mut item);
    item.shape = match rng.below(8) {
        0 | 1 => Shape::Tuple,
        2 => Shape::Unit,
        _ => Shape::Named,
    };
    // 1 in 8 items is "big": many counterparts, many members; 1 in 60 is huge
    let big = rng.chance(1, 8);
    let huge = rng.chance(1, 60);
    let n_cp = match class {
        _ if huge => rng.range(8, 48),
        _ if big => rng.range(4, 7),
        Class::W2MultiCounterpart => rng.range(2, 4),
        _ => rng.range(1, 3),
    };
    let cps_owned = counterparts(rng, n_cp);
    let cps: Vec<&str> = cps_owned.iter().map(|s| s.as_str()).collect();
    let repeat_mode = class == Class::W4Repeat;

    let mut bodies: Vec<String> = Vec::new();
    let mut fallible_any = false;
    let mut open_repeats: Vec<String> = Vec::new();
    let cps_all = cps.clone();
    // instructions can only be dedicated to counterparts that are paths (not nameless tuples)
    let mut cps: Vec<&str> = cps_all.iter().copied().filter(|c| !c.starts_with('(')).collect();
    if cps.is_empty() {
        cps.push(cps_all[0]);
    }
    for cp in &cps_all {
        let random_bundle: Vec<&str> = {
            let n = rng.range(1, 5);
            pick_distinct(rng, &TRAIT_INSTRS, n)
        };
        let bundle: &[&str] = if rng.chance(1, 4) { &random_bundle } else { *rng.pick(&BUNDLES) };
        let hint = match (item.shape, rng.below(6)) {
            (Shape::Named, 0) => " as ()",
            (Shape::Tuple, 0) => " as {}",
            (_, 1) if item.shape == Shape::Unit => " as Unit",
            (Shape::Unit, 2) => " as {}",
            _ => "",
        };
        let mut used_infallible = 0u32;
        let mut used_fallible = 0u32;
        for instr in bundle {
            // two instructions covering the same kind for one counterpart are a (documented)
            // misuse: keep that to 1 in 8 here, the misuse catalogue does it on purpose
            let used = if is_fallible(instr) { &mut used_fallible } else { &mut used_infallible };
            if *used & kind_mask(instr) != 0 && !rng.chance(1, 8) {
                continue;
            }
            *used |= kind_mask(instr);
            fallible_any |= is_fallible(instr);
            let is_open = open_repeats.iter().any(|x| x == instr);
            // mostly well-formed repeat sequences; 1 in 8 anything goes
            let repeat_state = if rng.chance(1, 8) { 0 } else if is_open { 2 } else { 1 };
            let o = TraitOpts { hint, params: rng.chance(1, 2) || repeat_mode, enum_ctx: false, repeat_params: repeat_mode && rng.chance(2, 3), repeat_state };
            let body = trait_attr_body(rng, instr, cp, &o);
            if body.contains("stop_repeat") {
                open_repeats.retain(|x| x != instr);
            }
            if body.contains("repeat(") {
                open_repeats.push(instr.to_string());
            }
            bodies.push(body);
        }
    }
    if repeat_mode {
        // same instruction name several times with different counterparts, so that the
        // repeat() parameters carry over between them
        let mut instr = *rng.pick(&["map", "from", "into", "try_map", "owned_into", "from_ref"]);
        for _ in 0..8 {
            if !open_repeats.iter().any(|x| x == instr) {
                break;
            }
            instr = *rng.pick(&["map", "from", "into", "try_map", "owned_into", "from_ref"]);
        }
        let extra = { let n = rng.range(2, 4); pick_distinct(rng, &["R1", "R2", "R3", "R4"], n) };
        for (i, cp) in extra.iter().enumerate() {
            let p = match (i, rng.below(4)) {
                // (templates carry one to three vars; a follower may bring vars of its own, named
                // differently or alike, with or without skip_repeat)
                (0, 0) => "| repeat(), vars(k: { 1 }, k2: { 2 }, k3: { k + k2 }), ..Default::default()".to_string(),
                (0, 1) => "| repeat(), vars(k: { 1 }, k2: { 2 }), ..Default::default()".to_string(),
                (0, _) => "| repeat(), vars(k: { 1 }), ..Default::default()".to_string(),
                (_, 0) => "| skip_repeat, vars(z: { 2 })".to_string(),
                (_, 1) => "| stop_repeat".to_string(),
                (_, 2) => rng.pick(&["| vars(own: { 3 })", "| vars(own: { 3 }, own2: { 4 })", "| vars(k: { 9 })"]).to_string(),
                _ => String::new(),
            };
            fallible_any |= is_fallible(instr);
            let e = if is_fallible(instr) { ", String" } else { "" };
            bodies.push(format!("{}({}{}{})", instr, cp, e, p));
        }
    }
    if rng.chance(1, 2) {
        rng.shuffle(&mut bodies);
    }
    if item.shape != Shape::Unit {
        ghosts_attrs(rng, &cps, &mut bodies);
    }
    if !item.generics.is_empty() || rng.chance(1, 6) {
        where_attrs(rng, &cps, &mut bodies);
    }

    // flattening
    let flatten = class == Class::W3Flatten || rng.chance(1, 6);
    let random_paths: Vec<String> = (0..4)
        .map(|_| {
            let d = rng.range(1, 6);
            (0..d).map(|_| rng.pick(&["a", "b", "c", "base", "inner", "x", "0", "1"]).to_string()).collect::<Vec<_>>().join(".")
        })
        .collect();
    let groups: Vec<&str> = if flatten && (item.shape == Shape::Named || rng.chance(1, 4)) {
        let n = rng.range(2, 4);
        if rng.chance(1, 3) {
            let mut v: Vec<&str> = random_paths.iter().map(|s| s.as_str()).collect();
            v.sort();
            v.dedup();
            v.truncate(n);
            v
        } else {
            pick_distinct(rng, &["base", "base.inner", "child", "base.inner.deep", "meta", "a.b.c.d.e", "a.b.c.d.e.f", "a.b"], n)
        }
    } else {
        vec![]
    };
    if !groups.is_empty() {
        let mut need: Vec<String> = Vec::new();
        for g in &groups {
            // every prefix needs a type
            let segs: Vec<&str> = g.split('.').collect();
            for i in 1..=segs.len() {
                let p = segs[..i].join(".");
                if !need.contains(&p) {
                    need.push(p)
                }
            }
        }
        if rng.chance(1, 2) {
            rng.shuffle(&mut need);
        }
        let tyname = |p: &str| -> String {
            let last = p.rsplit('.').next().unwrap();
            if last.chars().all(|c| c.is_ascii_digit()) {
                return format!("Tup{}", last);
            }
            let mut c = last.chars();
            let f = c.next().unwrap().to_ascii_uppercase();
            format!("{}{}", f, c.as_str())
        };
        let list = |need: &Vec<String>, rng: &mut Rng| need.iter().map(|p| format!("{}: {}{}", p, tyname(p), if rng.chance(1, 6) { " as {}" } else { "" })).collect::<Vec<_>>().join(", ");
        if rng.chance(2, 3) {
            let l = list(&need, rng);
            bodies.push(format!("child_parents({})", l));
        }
        for cp in &cps {
            if rng.chance(1, 3) {
                let l = list(&need, rng);
                bodies.push(format!("child_parents({}| {})", cp, l));
            }
        }
        if rng.chance(1, 3) {
            // ghosts living inside a child
            let g = *rng.pick(&groups);
            bodies.push(format!("ghosts({}@ghost_in_child: {{ 7 }}, top_ghost: {{ 8 }})", g));
        }
        if rng.chance(1, 4) {
            // children that are populated by ghosts only (no #[child] field names them)
            let k = rng.range(2, 4);
            let only = pick_distinct(rng, &["ga", "gb", "gc", "gd"], k);
            let tys: Vec<String> = only.iter().map(|g| format!("{}: G{}", g, g.to_uppercase())).collect();
            let gh: Vec<String> = only.iter().enumerate().map(|(i, g)| format!("{}@v{}: {{ {} }}", g, i, i)).collect();
            // a second *default* ghosts / child_parents instruction would be a misuse: dedicate
            // these to a counterpart when a default one is already there
            let has_default = bodies.iter().any(|b| (b.starts_with("child_parents(") || b.starts_with("ghosts")) && !b.contains("| "));
            let ded = if has_default || rng.chance(1, 3) { format!("{}| ", rng.pick(&cps)) } else { String::new() };
            let dup = bodies.iter().any(|b| b.starts_with(&format!("child_parents({}", ded)) && !ded.is_empty());
            if !dup {
                bodies.push(format!("child_parents({}{})", ded, tys.join(", ")));
                bodies.push(format!("{}({}{})", rng.pick(&["ghosts", "ghosts_owned", "ghosts_ref"]), ded, gh.join(", ")));
            }
        }
    }

    let with_allow_unknown = rng.chance(1, 8);
    if with_allow_unknown {
        let pos = rng.below(bodies.len() as u64 + 1) as usize;
        bodies.insert(pos, "o2o(allow_unknown)".into());
    }
    item.type_attrs = wrap(bodies, rng).into_iter().map(|a| a.replace("#[o2o(o2o(allow_unknown))]", "#[o2o(allow_unknown)]").replace("o2o(allow_unknown)", "allow_unknown").replace("#[allow_unknown]", "#[o2o(allow_unknown)]")).collect();

    // members
    if item.shape != Shape::Unit {
        // "wide": member counts just below, at and above the sizes at which an implementation
        // would switch strategy (a small-vector capacity, a "large input" threshold)
        let wide = !huge && rng.chance(1, 60);
        let n = if wide { *rng.pick(&[16usize, 17, 32, 33, 64, 65, 128, 129, 130, 256, 257, 300]) } else if huge { rng.range(33, 70) } else if big { rng.range(7, 10) } else { rng.range(1, 7) };
        let huge = huge || wide;
        let huge_names: Vec<String> = (0..n).map(|i| format!("f{}", i)).collect();
        let names: Vec<&str> = if huge { huge_names.iter().map(|s| s.as_str()).collect() } else { pick_distinct(rng, &FIELD_NAMES, n) };
        let named_cp = item.shape == Shape::Named;
        let mut repeat_open = false;
        for (i, name) in names.iter().enumerate() {
            let mut attrs: Vec<String> = Vec::new();
            // (in a wide item only the first few members carry instructions: the point is the count)
            let r = if wide && i >= 6 { 11 } else { rng.below(12) };
            match r {
                0 | 1 | 2 => attrs.push(member_instr(rng, &cps, named_cp, i, fallible_any)),
                3 => {
                    attrs.push(member_instr(rng, &cps, named_cp, i, fallible_any));
                    attrs.push(member_instr(rng, &cps, named_cp, i, fallible_any));
                },
                4 => attrs.push(ghost_instr(rng, &cps, true)),
                5 => { let d = rng.chance(1, 2); attrs.push(ghost_instr(rng, &cps, d)) },
                6 => {
                    // any primitive, and now and then a word the expander's sources mention
                    let corpus_words: &[String] = crate::corpus::TYPE_WORDS.get().map(|v| v.as_slice()).unwrap_or(&[]);
                    let ty = if !corpus_words.is_empty() && rng.chance(1, 6) { rng.pick(corpus_words).clone() } else { rng.pick(&["i64", "f64", "u8", "EntityDto| other, u32", "usize", "isize", "u64", "i128", "f32", "u16", "bool", "char"]).to_string() };
                    attrs.push(format!("as_type({})", ty))
                },
                7 => attrs.push(if rng.chance(1, 2) || cps.is_empty() { "parent".to_string() } else { format!("parent({})", rng.pick(&cps)) }),
                _ => {},
            }
            if !groups.is_empty() && rng.chance(2, 3) {
                let g = *rng.pick(&groups);
                if rng.chance(1, 4) {
                    attrs.push(format!("child({}| {})", rng.pick(&cps), g));
                } else {
                    attrs.push(format!("child({})", g));
                }
            }
            if rng.chance(1, 250) {
                // extreme nesting: [parent(...)] one or two hundred levels deep
                let depth = rng.range(100, 260);
                let mut inner = "leaf".to_string();
                for d in 0..depth {
                    // now and then a level has a sibling with an instruction of its own
                    inner = if d % 37 == 5 { format!("[parent({}, [map(z{})] other)] n{}: N{}", inner, d, d, d) } else { format!("[parent({})] n{}: N{}", inner, d, d) };
                }
                attrs.push(format!("parent({})", inner));
            }
            if (class == Class::W3Flatten && rng.chance(1, 5)) || rng.chance(1, 20) {
                // parameterised parent
                let ded = if rng.chance(1, 3) { format!("{}| ", rng.pick(&cps)) } else { String::new() };
                let inner = match rng.below(4) {
                    0 => "x, y".to_string(),
                    1 => "[map(renamed)] x, [from(@.q)] y, z".to_string(),
                    2 => "[parent(a, [map(bb)] b)] inner: Inner, c".to_string(),
                    _ => "[parent([parent(deep)] mid: Mid, [into(~.clone())] b)] inner: Inner, [map(0)] c".to_string(),
                };
                attrs.push(format!("parent({}{})", ded, inner));
            }
            if repeat_mode || rng.chance(1, 12) {
                match rng.below(6) {
                    0 if !repeat_open => {
                        attrs.push(rng.pick(&["repeat", "repeat(map)", "repeat(map, ghost)", "repeat(child, parent)"]).to_string());
                        repeat_open = true;
                        // a repeat is there to carry instructions over: the member that opens it
                        // often has several, of overlapping kinds (from + map + from_owned ...)
                        if rng.chance(1, 2) {
                            let k = rng.range(2, 3);
                            for _ in 0..k {
                                attrs.push(member_instr(rng, &cps, named_cp, i, fallible_any));
                            }
                        }
                    },
                    1 if repeat_open => attrs.push("skip_repeat".into()),
                    2 if repeat_open => {
                        attrs.push("stop_repeat".into());
                        repeat_open = false;
                    },
                    _ => {},
                }
            }
            if rng.chance(1, 3) {
                rng.shuffle(&mut attrs);
            }
            let attrs = wrap(attrs, rng);
            item.members.push(Member { attrs, decl: field_decl(rng, item.shape, name, !item.generics.is_empty()) });
        }
    }
    if with_allow_unknown {
        add_silenced_instructions(rng, &mut item);
    }
    item
}

/// The name of a container type no trait instruction mentions: mostly a bare identifier, one
/// time in three a qualified path of 2-7 segments of seeded length (diagnostics quote the
/// path; anything that depends on its length or its number of segments needs long ones).
fn unknown_type_name(rng: &mut Rng, stem: &str) -> String {
    let last = format!("{}{}", stem, rng.below(4));
    if !rng.chance(1, 3) {
        return last;
    }
    const SEGS: [&str; 12] = ["crate", "self", "super", "services", "billing", "dto", "v1", "api", "m", "internal_models_generated", "x", "wire"];
    let n = rng.range(1, 6);
    let mut segs: Vec<String> = Vec::new();
    for i in 0..n {
        let s = if i == 0 { *rng.pick(&SEGS) } else { *rng.pick(&SEGS[3..]) };
        segs.push(s.to_string());
    }
    segs.push(last);
    let lead = if segs[0] != "crate" && segs[0] != "self" && segs[0] != "super" && rng.chance(1, 4) { "::" } else { "" };
    format!("{}{}", lead, segs.join("::"))
}

/// What `#[o2o(allow_unknown)]` silences: bare instructions that belong elsewhere (the type
/// is accepted *because* of the flag).
fn add_silenced_instructions(rng: &mut Rng, item: &mut Item) {
    if rng.chance(1, 2) {
        let a = *rng.pick(&["#[parent]", "#[literal(1)]", "#[pattern(_)]", "#[type_hint(as ())]", "#[ghost(x)]", "#[child(a.b)]", "#[repeat]", "#[as_type(i32)]"]);
        let pos = rng.below(item.type_attrs.len() as u64 + 1) as usize;
        item.type_attrs.insert(pos, a.to_string());
    }
    if !item.members.is_empty() && rng.chance(2, 3) {
        let mi = rng.below(item.members.len() as u64) as usize;
        let a = *rng.pick(&["#[where_clause(T: Clone)]", "#[children(a: A)]", "#[child_parents(a: A)]", "#[allow_unknown]"]);
        item.members[mi].attrs.push(a.to_string());
    }
}

/// W5: enums -- variant renames, literal / pattern, type hints, ghosts, payload fields.
pub fn gen_enum(rng: &mut Rng, class: Class) -> Item {
    let mut item = Item { type_attrs: vec![], is_enum: true, name: rng.pick(&TYPE_NAMES).to_string(), generics: String::new(), where_clause: String::new(), shape: Shape::Named, members: vec![], origin: class.tag().to_string(), raw: None };
    if rng.chance(1, 5) {
        item.generics = "<T>".into();
    }
    let primitive = rng.chance(1, 3);
    let cps_owned: Vec<String> = if primitive {
        let n = rng.range(1, 2);
        pick_distinct(rng, &["i32", "u8", "String", "u64", "char"], n).into_iter().map(|s| s.to_string()).collect()
    } else {
        let n = rng.range(1, 3);
        counterparts(rng, n)
    };
    let cps: Vec<&str> = cps_owned.iter().map(|s| s.as_str()).collect();
    let mut bodies: Vec<String> = Vec::new();
    let mut fallible_any = false;
    for cp in &cps {
        let mut bundle = *rng.pick(&BUNDLES);
        // (variant instruction | literal | pattern) x into_existing is a todo!() in o2o: keep it rare
        if !rng.chance(1, 10) {
            while bundle.iter().any(|i| i.contains("existing")) {
                bundle = *rng.pick(&BUNDLES);
            }
        }
        for instr in bundle {
            fallible_any |= is_fallible(instr);
            let o = TraitOpts { hint: "", params: primitive || rng.chance(1, 2), enum_ctx: true, repeat_params: class == Class::W4Repeat && rng.chance(1, 2), repeat_state: 0 };
            bodies.push(trait_attr_body(rng, instr, cp, &o));
        }
    }
    if rng.chance(1, 3) {
        // 1..3 enum-level ghosts instructions (default and dedicated ones), 1..4 arms each
        let n_instr = if rng.chance(1, 2) { 1 } else { rng.range(2, 3) };
        for gi in 0..n_instr {
            let n = rng.range(1, 4);
            let vs = pick_distinct(rng, &["Ghosted", "Extra(a, b)", "More { x, y }", "Zeta", "Omega", "Psi(p)"], n);
            let data: Vec<String> = vs.iter().map(|v| format!("{}: {}", v, rng.pick(&["{ todo!() }", "{ Self::Ok }", "{ panic!(\"g\") }", "{ Default::default() }"]))).collect();
            let ded = if gi > 0 || rng.chance(1, 2) { format!("{}| ", rng.pick(&cps)) } else { String::new() };
            bodies.push(format!("{}({}{})", rng.pick(&["ghosts", "ghosts", "ghosts_owned", "ghosts_ref"]), ded, data.join(", ")));
        }
    }
    if !item.generics.is_empty() {
        where_attrs(rng, &cps, &mut bodies);
    }
    let with_allow_unknown = rng.chance(1, 8);
    if with_allow_unknown {
        let pos = rng.below(bodies.len() as u64 + 1) as usize;
        bodies.insert(pos, "o2o(allow_unknown)".into());
    }
    item.type_attrs = wrap(bodies, rng).into_iter().map(|a| a.replace("#[o2o(o2o(allow_unknown))]", "#[o2o(allow_unknown)]").replace("o2o(allow_unknown)", "allow_unknown").replace("#[allow_unknown]", "#[o2o(allow_unknown)]")).collect();

    let wide = rng.chance(1, 100);
    let n = if wide { *rng.pick(&[16usize, 17, 32, 33, 64, 65, 128, 129, 130, 256, 257]) } else { rng.range(1, 6) };
    let wide_names: Vec<String> = (0..n).map(|i| format!("V{}", i)).collect();
    let names: Vec<&str> = if wide { wide_names.iter().map(|s| s.as_str()).collect() } else { pick_distinct(rng, &VARIANT_NAMES, n) };
    let mut lit = 0;
    let mut repeat_open = false;
    for name in names {
        let mut attrs: Vec<String> = Vec::new();
        let vshape = rng.below(4);
        if primitive {
            for cp in &cps {
                let ded = if cps.len() > 1 || rng.chance(1, 4) { format!("{}| ", cp) } else { String::new() };
                lit += 1;
                let is_str = cp.contains("str") || cp.contains("String");
                let l = if is_str { format!("\"v{}\"", lit) } else if *cp == "char" { format!("'{}'", (b'a' + (lit % 26) as u8) as char) } else if rng.chance(1, 6) {
                    // boundary values of every integer width, in every spelling
                    rng.pick(&["0x7fffffff", "0x80000000", "0x80004005", "0xffffffff", "4294967296", "2147483648", "-2147483649", "0xffff_ffff_ffff_ffff", "9223372036854775807", "-9223372036854775808", "18446744073709551615", "65536", "255u8", "0b1000_0000", "0o777", "1_000_000_000_000", "340282366920938463463374607431768211455"]).to_string()
                } else {
                    format!("{}", lit * 100)
                };
                match rng.below(4) {
                    0 => {
                        attrs.push(format!("pattern({}{} | {})", ded, l, l.replace('1', "9")));
                        if !rng.chance(1, 8) {
                            attrs.push(format!("into({}{{ {} }})", ded, l));
                        }
                    },
                    1 => {
                        attrs.push(format!("pattern({}_)", ded));
                        if !rng.chance(1, 8) {
                            attrs.push(format!("into({}{{ {} }})", ded, l));
                        }
                    },
                    _ => attrs.push(format!("literal({}{})", ded, l)),
                }
                if cps.len() == 1 {
                    break;
                }
            }
        } else {
            if rng.chance(1, 2) {
                let ded = if rng.chance(1, 3) { format!("{}| ", rng.pick(&cps)) } else { String::new() };
                attrs.push(format!("{}({}{})", rng.pick(&["map", "from", "into", "map_owned", "from_ref"]), ded, rng.pick(&["Renamed", "Other", "Alt"])));
            }
            if rng.chance(1, 5) {
                attrs.push(ghost_instr(rng, &cps, true));
            }
            // variant-level #[ghosts(..)]: fields the other side's variant has in excess; one or
            // two instructions (default and dedicated), 1-3 names each, names may repeat across them
            if rng.chance(1, 4) {
                let n_instr = if rng.chance(2, 3) { 1 } else { 2 };
                for gi in 0..n_instr {
                    let n = rng.range(1, 3);
                    let names = pick_distinct(rng, &["g_a", "g_b", "extra", "0", "1", "g_c"], n);
                    let data: Vec<String> = names.iter().map(|v| format!("{}: {}", v, default_expr(rng))).collect();
                    let ded = if gi > 0 || rng.chance(1, 3) { format!("{}| ", rng.pick(&cps)) } else { String::new() };
                    attrs.push(format!("{}({}{})", rng.pick(&["ghosts", "ghosts", "ghosts_owned", "ghosts_ref"]), ded, data.join(", ")));
                }
            }
            if vshape >= 2 && rng.chance(1, 2) {
                let ded = if rng.chance(1, 3) { format!("{}| ", rng.pick(&cps)) } else { String::new() };
                attrs.push(format!("type_hint({}as {})", ded, rng.pick(&["{}", "()", "Unit"])));
            }
        }
        if class == Class::W4Repeat || rng.chance(1, 10) {
            match rng.below(5) {
                0 if !repeat_open => {
                    attrs.push(rng.pick(&["repeat", "repeat(type_hint)", "repeat(map, ghost)"]).to_string());
                    repeat_open = true;
                },
                1 if repeat_open => attrs.push("skip_repeat".into()),
                2 if repeat_open => {
                    attrs.push("stop_repeat".into());
                    repeat_open = false;
                },
                _ => {},
            }
        }
        let fattr = |rng: &mut Rng, i: usize, named: bool| -> String {
            match rng.below(6) {
                0 => format!("#[{}] ", member_instr(rng, &cps, named, i, fallible_any)),
                1 => format!("#[{}] ", ghost_instr(rng, &cps, true)),
                2 if class == Class::W4Repeat => format!("#[repeat({})] ", rng.pick(&["", "permeate()", "permeate(), map"])),
                3 => "#[from(@)] ".to_string(),
                _ => String::new(),
            }
        };
        let decl = match vshape {
            0 | 1 => name.to_string(),
            2 => {
                let k = rng.range(1, 3);
                let fs: Vec<String> = (0..k).map(|i| format!("{}{}", fattr(rng, i, false), rng.pick(&FIELD_TYPES))).collect();
                format!("{}({})", name, fs.join(", "))
            },
            _ => {
                let k = rng.range(1, 3);
                let ns = pick_distinct(rng, &FIELD_NAMES, k);
                let fs: Vec<String> = ns.iter().enumerate().map(|(i, n)| format!("{}{}: {}", fattr(rng, i, true), n, rng.pick(&FIELD_TYPES))).collect();
                format!("{} {{ {} }}", name, fs.join(", "))
            },
        };
        let attrs = wrap(attrs, rng);
        item.members.push(Member { attrs, decl });
    }
    if with_allow_unknown {
        add_silenced_instructions(rng, &mut item);
    }
    item
}

// ---------------------------------------------------------------- W1: misuse injection

/// Catalogue of documented misuses; each adds one or two attributes to a (usually valid)
/// item.  Every entry leads to a *different* message of validate.rs / attr.rs, so k
/// injections put ~k keys into the `errors` container.
pub const N_MISUSES: usize = 55;

pub fn inject_misuse(rng: &mut Rng, item: &mut Item, which: usize) -> &'static str {
    let cp0 = first_counterpart(item).unwrap_or_else(|| "EntityDto".to_string());
    let nm = item.members.len();
    let mi = if nm > 0 { rng.below(nm as u64) as usize } else { 0 };
    let own = rng.chance(1, 3);
    let w = |own: bool, body: String| if own { format!("#[o2o({})]", body) } else { format!("#[{}]", body) };
    macro_rules! ty {
        ($name:expr, $body:expr) => {{
            let pos = rng.below(item.type_attrs.len() as u64 + 1) as usize;
            item.type_attrs.insert(pos, w(own, $body));
            $name
        }};
    }
    macro_rules! mem {
        ($name:expr, $body:expr) => {{
            if nm == 0 {
                item.type_attrs.push(w(true, "zz_unknown_instr(1)".to_string()));
                "fallback-unrecognized"
            } else {
                let a = w(own, $body);
                let pos = rng.below(item.members[mi].attrs.len() as u64 + 1) as usize;
                item.members[mi].attrs.insert(pos, a);
                $name
            }
        }};
    }
    match which % N_MISUSES {
        0 => ty!("type:parent", format!("parent({})", cp0)),
        1 => ty!("type:as_type", "as_type(i32)".to_string()),
        2 => ty!("type:literal", "literal(1)".to_string()),
        3 => ty!("type:pattern", "pattern(_)".to_string()),
        4 => ty!("type:repeat", "repeat".to_string()),
        5 => ty!("type:skip_repeat", "skip_repeat".to_string()),
        6 => ty!("type:stop_repeat", "stop_repeat".to_string()),
        7 => ty!("type:type_hint", "type_hint(as ())".to_string()),
        8 => ty!("type:ghost", "ghost(x)".to_string()),
        9 => ty!("type:ghost_ref", "ghost_ref".to_string()),
        10 => ty!("type:ghost_owned", "ghost_owned({ 1 })".to_string()),
        11 => ty!("type:child", "child(a.b)".to_string()),
        12 => ty!("type:children", "children(a: A)".to_string()),
        13 => {
            item.type_attrs.push(format!("#[o2o(zz_unknown_{}(1))]", rng.below(3)));
            "type:unrecognized"
        },
        14 => {
            // duplicate trait instructions: 1..3 different counterparts, each named twice by the
            // same instruction (same message, several candidate spans)
            let instr = *rng.pick(&["map", "from", "into", "owned_into", "from_ref", "into_existing", "try_map"]);
            let e = if is_fallible(instr) { ", String" } else { "" };
            let n = rng.range(1, 3);
            let mut cps: Vec<String> = vec![cp0.clone()];
            for i in 1..n {
                cps.push(format!("Dup{}", i));
            }
            let mut lines: Vec<String> = Vec::new();
            for _ in 0..2 {
                for c in &cps {
                    lines.push(format!("#[{}({}{})]", instr, c, e));
                }
            }
            if rng.chance(1, 2) {
                rng.shuffle(&mut lines);
            }
            item.type_attrs.extend(lines);
            "type:duplicate-trait-instr"
        },
        15 => ty!("type:fallible-without-error", format!("{}(Unfall{})", rng.pick(&["try_map", "try_from", "try_into", "owned_try_into"]), rng.below(3))),
        16 => ty!("type:infallible-with-error", format!("{}(WithErr{}, String)", rng.pick(&["map", "from", "into", "ref_into"]), rng.below(3))),
        17 | 18 | 19 if rng.chance(1, 4) => {
            // the same family of instructions dedicated to several unknown types whose names are
            // near-duplicates of each other
            let fam = near_duplicates(rng);
            let k = rng.range(2, fam.len());
            for f in fam.iter().take(k) {
                let body = match which % 3 {
                    0 => format!("#[where_clause({}| T: Clone)]", f),
                    1 => format!("#[ghosts({}| a: {{ 1 }})]", f),
                    _ => format!("#[child_parents({}| p: P)]", f),
                };
                let pos = rng.below(item.type_attrs.len() as u64 + 1) as usize;
                item.type_attrs.insert(pos, body);
            }
            "type:near-duplicate-unknown-types"
        },
        17 => ty!("type:ghosts-unknown-type", format!("ghosts({}| a: {{ 1 }})", unknown_type_name(rng, "Unknown"))),
        18 => ty!("type:where-unknown-type", format!("where_clause({}| T: Clone)", unknown_type_name(rng, "Unknown"))),
        19 => ty!("type:child_parents-unknown-type", format!("child_parents({}| p: P)", unknown_type_name(rng, "Unknown"))),
        20 => {
            item.type_attrs.push("#[ghosts(d1: { 1 })]".into());
            item.type_attrs.push("#[ghosts(d2: { 2 })]".into());
            "type:two-default-ghosts"
        },
        21 => {
            item.type_attrs.push("#[where_clause(T: Clone)]".into());
            item.type_attrs.push("#[where_clause(T: Copy)]".into());
            "type:two-default-where"
        },
        22 => {
            item.type_attrs.push("#[child_parents(p: P)]".into());
            item.type_attrs.push("#[child_parents(q: Q)]".into());
            "type:two-default-child_parents"
        },
        23 => {
            item.type_attrs.push(format!("#[ghosts({}| e1: {{ 1 }})]", cp0));
            item.type_attrs.push(format!("#[ghosts({}| e2: {{ 2 }})]", cp0));
            "type:duplicate-dedicated-ghosts"
        },
        24 => {
            item.type_attrs.push(format!("#[where_clause({}| T: Clone)]", cp0));
            item.type_attrs.push(format!("#[where_clause({}| T: Copy)]", cp0));
            "type:duplicate-dedicated-where"
        },
        25 => ty!("type:child_parents-duplicate-path", rng.pick(&["child_parents(dup: A, dup: B)", "child_parents(dup: A, other: O, dup: B, other: P)", "child_parents(a: A, b: B, c: C, c: C, a: A, b: B)"]).to_string()),
        26 => mem!("member:children", "children(a: A)".to_string()),
        27 => mem!("member:child_parents", "child_parents(a: A)".to_string()),
        28 => mem!("member:where_clause", "where_clause(T: Clone)".to_string()),
        29 => {
            if nm == 0 {
                item.type_attrs.push("#[o2o(zz_other(2))]".into());
            } else {
                item.members[mi].attrs.push("#[o2o(allow_unknown)]".into());
            }
            "member:allow_unknown"
        },
        30 => {
            if nm == 0 {
                item.type_attrs.push("#[o2o(zz_third(3))]".into());
            } else {
                item.members[mi].attrs.push(format!("#[o2o(zz_member_unknown_{})]", rng.below(3)));
            }
            "member:unrecognized"
        },
        31 => mem!("member:literal-or-parent", if item.is_enum { format!("parent({})", cp0) } else { "literal(5)".to_string() }),
        32 => mem!("member:pattern", if item.is_enum { "parent".to_string() } else { "pattern(1 | 2)".to_string() }),
        33 => mem!("member:type_hint", if item.is_enum { "literal(Nope| 3)".to_string() } else { "type_hint(as {})".to_string() }),
        34 => mem!("member:ghosts", if item.is_enum { "pattern(Nope| _)".to_string() } else { format!("{}(g: {{ 1 }})", rng.pick(&["ghosts", "ghosts_owned", "ghosts_ref"])) }),
        35 => mem!("member:dedicated-unknown", format!("{}({}| zz)", rng.pick(&["map", "from", "into", "ghost", "child"]), unknown_type_name(rng, "Stranger"))),
        36 => mem!("member:ghost-no-default", "ghost".to_string()),
        37 => mem!("member:child-without-child_parents", format!("child(lonely{}.path)", rng.below(3))),
        38 => mem!("member:permeating-repeat", "repeat(permeate())".to_string()),
        // ---- malformed arguments: attribute parsing fails and expansion returns early with one error
        40 => mem!("syntax:empty-child", "child()".to_string()),
        41 => mem!("syntax:bad-type-hint", "type_hint(as what)".to_string()),
        42 => mem!("syntax:bad-repeat-kind", "repeat(bogus)".to_string()),
        43 => mem!("syntax:bad-parent-inner", rng.pick(&["parent([bogus(x)] y)", "parent([parent([bogus(x)] y)] inner: Inner)", "parent([parent([parent(a b)] mid: Mid)] inner: Inner, c)", "parent([parent(x)] [parent(y)] twice: T)"]).to_string()),
        44 => mem!("syntax:ghosts-no-colon", "ghosts(x)".to_string()),
        45 => ty!("syntax:empty-map", format!("{}()", rng.pick(&["map", "from", "try_into"]))),
        46 => ty!("syntax:vars-no-braces", format!("map({}| vars(x))", cp0)),
        47 => ty!("syntax:child_parents-no-type", "child_parents(a)".to_string()),
        48 => ty!("syntax:empty-where", "where_clause()".to_string()),
        49 => ty!("syntax:param-twice", format!("into({}| vars(a: {{ 1 }}), vars(b: {{ 2 }}))", cp0)),
        // ---- #[name = "Value"] forms of instruction names (own parse path per back-end)
        52 => {
            let k = rng.range(1, 3);
            let names = pick_distinct(rng, &["from_owned", "owned_into", "map", "ghosts", "where_clause", "child_parents", "into_existing", "try_map"], k);
            for n in names {
                let pos = rng.below(item.type_attrs.len() as u64 + 1) as usize;
                item.type_attrs.insert(pos, format!("#[{} = \"{}\"]", n, rng.pick(&["Foo", "Value", ""])));
            }
            "type:name-value-attrs"
        },
        53 => {
            if nm == 0 {
                item.type_attrs.push("#[map = \"x\"]".into());
            } else {
                let k = rng.range(1, 3);
                let names = pick_distinct(rng, &["map", "from", "ghost", "child", "parent", "literal", "as_type"], k);
                for n in names {
                    item.members[mi].attrs.push(format!("#[{} = \"v\"]", n));
                }
            }
            "member:name-value-attrs"
        },
        // ---- a typing error in an instruction name: one character appended, replaced,
        // dropped, doubled or swapped (what "did you mean" logic is written for; a keyword with
        // a longer sibling -- ghost / ghosts -- makes the typo equidistant from both)
        54 => {
            typo_instruction(rng, item);
            "typo:instruction-name"
        },
        // ---- allow_unknown: silences the 'misplaced / misnamed' class
        50 | 51 => {
            let pos = if which % N_MISUSES == 51 { 0 } else { rng.below(item.type_attrs.len() as u64 + 1) as usize };
            item.type_attrs.insert(pos, "#[o2o(allow_unknown)]".into());
            // allow_unknown is only observable next to what it silences: misplaced / misnamed
            // instructions in bare form, on the type and on members
            if rng.chance(3, 4) {
                let n = rng.range(1, 3);
                for _ in 0..n {
                    let w = *rng.pick(&[0usize, 1, 2, 3, 4, 5, 6, 7, 8, 9, 10, 11, 12, 26, 27, 28]);
                    let before = item.n_attrs();
                    inject_misuse(rng, item, w);
                    let _ = before;
                }
                // the silenced class is the bare form only
                for a in item.type_attrs.iter_mut() {
                    if rng.chance(1, 2) {
                        for name in ["parent", "as_type", "literal", "pattern", "repeat", "skip_repeat", "stop_repeat", "type_hint", "ghost", "ghost_ref", "ghost_owned", "child", "children"] {
                            let own = format!("#[o2o({}", name);
                            if a.starts_with(&own) && a.ends_with(")]") {
                                *a = format!("#[{}]", &a[6..a.len() - 2]);
                                break;
                            }
                        }
                    }
                }
            }
            "type:allow_unknown"
        },
        _ => {
            // two default / duplicate dedicated member-level instructions
            if nm == 0 {
                item.type_attrs.push("#[o2o(zz_fourth(4))]".into());
            } else if item.is_enum {
                item.members[mi].attrs.push("#[literal(1)]".into());
                item.members[mi].attrs.push("#[literal(2)]".into());
                item.members[mi].attrs.push(format!("#[type_hint({}| as ())]", cp0));
                item.members[mi].attrs.push(format!("#[type_hint({}| as {{}})]", cp0));
            } else {
                item.members[mi].attrs.push("#[parent]".into());
                item.members[mi].attrs.push("#[parent]".into());
                item.members[mi].attrs.push(format!("#[parent({})]", cp0));
                item.members[mi].attrs.push(format!("#[parent({})]", cp0));
            }
            "member:duplicate-default-or-dedicated"
        },
    }
}

fn first_counterpart(item: &Item) -> Option<String> {
    for a in &item.type_attrs {
        for key in ["map", "from", "into", "map_owned", "map_ref", "from_owned", "from_ref", "owned_into", "ref_into", "into_existing"] {
            let pat = format!("{} (", key);
            let pat2 = format!("{}(", key);
            for p in [pat, pat2] {
                if let Some(i) = a.find(&p) {
                    // must be a whole word
                    if i > 0 && (a.as_bytes()[i - 1].is_ascii_alphanumeric() || a.as_bytes()[i - 1] == b'_') {
                        continue;
                    }
                    let rest = &a[i + p.len()..];
                    let end = rest.find(|c: char| !(c.is_alphanumeric() || c == '_' || c == ':')).unwrap_or(rest.len());
                    let name = rest[..end].trim();
                    if !name.is_empty() {
                        return Some(name.to_string());
                    }
                }
            }
        }
    }
    None
}

// ---------------------------------------------------------------- W7: structural mutation of corpus items

use proc_macro2::{Delimiter, Group, Ident, TokenStream, TokenTree};

const TRAIT_INSTRS: [&str; 24] = [
    "map", "from", "into", "map_owned", "map_ref", "from_owned", "from_ref", "owned_into", "ref_into", "into_existing", "owned_into_existing", "ref_into_existing", "try_map", "try_from", "try_into", "try_map_owned", "try_map_ref", "try_from_owned", "try_from_ref", "owned_try_into", "ref_try_into", "try_into_existing", "owned_try_into_existing",
    "ref_try_into_existing",
];

fn contains_ident(ts: &TokenStream, name: &str) -> bool {
    ts.clone().into_iter().any(|t| match t {
        TokenTree::Ident(i) => i == name,
        TokenTree::Group(g) => contains_ident(&g.stream(), name),
        _ => false,
    })
}

fn rename_ident(ts: TokenStream, from: &str, to: &TokenStream) -> TokenStream {
    let mut out = TokenStream::new();
    for t in ts {
        match t {
            TokenTree::Ident(i) if i == from => out.extend(to.clone()),
            TokenTree::Group(g) => {
                let mut ng = Group::new(g.delimiter(), rename_ident(g.stream(), from, to));
                ng.set_span(g.span());
                out.extend([TokenTree::Group(ng)]);
            },
            t => out.extend([t]),
        }
    }
    out
}

/// single-identifier counterpart types named by the type-level trait instructions
fn single_ident_counterparts(item: &Item) -> Vec<String> {
    fn scan(ts: TokenStream, out: &mut Vec<String>) {
        let v: Vec<TokenTree> = ts.into_iter().collect();
        for i in 0..v.len() {
            if let (TokenTree::Ident(id), Some(TokenTree::Group(g))) = (&v[i], v.get(i + 1)) {
                if g.delimiter() == Delimiter::Parenthesis {
                    let name = id.to_string();
                    if name == "o2o" {
                        scan(g.stream(), out);
                    } else if TRAIT_INSTRS.contains(&name.as_str()) {
                        let inner: Vec<TokenTree> = g.stream().into_iter().collect();
                        if let Some(TokenTree::Ident(c)) = inner.first() {
                            let single = match inner.get(1) {
                                None => true,
                                Some(TokenTree::Punct(p)) => p.as_char() == '|' || p.as_char() == ',',
                                Some(TokenTree::Ident(a)) => a == "as",
                                _ => false,
                            };
                            if single && !out.contains(&c.to_string()) {
                                out.push(c.to_string());
                            }
                        }
                    }
                }
            }
            if let TokenTree::Group(g) = &v[i] {
                if g.delimiter() == Delimiter::Bracket {
                    scan(g.stream(), out);
                }
            }
        }
    }
    let mut out = Vec::new();
    for a in &item.type_attrs {
        if let Ok(ts) = a.parse::<TokenStream>() {
            scan(ts, &mut out);
        }
    }
    out
}

/// Every attribute (at any depth: type, member, variant field) that mentions `c` is followed
/// by a copy of itself in which `c` is replaced by `c2`; inside `#[o2o(a(..), b(..))]` lists
/// only the elements that mention `c` are copied.
fn clone_counterpart(ts: TokenStream, c: &str, c2: &TokenStream) -> TokenStream {
    let v: Vec<TokenTree> = ts.into_iter().collect();
    let mut out = TokenStream::new();
    let mut i = 0;
    while i < v.len() {
        match (&v[i], v.get(i + 1)) {
            (TokenTree::Punct(p), Some(TokenTree::Group(g))) if p.as_char() == '#' && g.delimiter() == Delimiter::Bracket => {
                let inner: Vec<TokenTree> = g.stream().into_iter().collect();
                let is_list = matches!((inner.first(), inner.get(1)), (Some(TokenTree::Ident(n)), Some(TokenTree::Group(l))) if n == "o2o" && l.delimiter() == Delimiter::Parenthesis && inner.len() == 2);
                if is_list && contains_ident(&g.stream(), c) {
                    let TokenTree::Group(l) = &inner[1] else { unreachable!() };
                    // split on top-level commas
                    let mut elems: Vec<TokenStream> = vec![TokenStream::new()];
                    for t in l.stream() {
                        match &t {
                            TokenTree::Punct(p) if p.as_char() == ',' => elems.push(TokenStream::new()),
                            _ => elems.last_mut().unwrap().extend([t]),
                        }
                    }
                    let mut list = TokenStream::new();
                    let mut first = true;
                    for e in elems {
                        if e.is_empty() {
                            continue;
                        }
                        let mut push = |x: TokenStream, list: &mut TokenStream| {
                            if !first {
                                list.extend("," .parse::<TokenStream>().unwrap());
                            }
                            first = false;
                            list.extend(x);
                        };
                        push(e.clone(), &mut list);
                        if contains_ident(&e, c) {
                            push(rename_ident(e, c, c2), &mut list);
                        }
                    }
                    let body: TokenStream = [inner[0].clone(), TokenTree::Group(Group::new(Delimiter::Parenthesis, list))].into_iter().collect();
                    out.extend([v[i].clone(), TokenTree::Group(Group::new(Delimiter::Bracket, body))]);
                } else {
                    out.extend([v[i].clone(), v[i + 1].clone()]);
                    if contains_ident(&g.stream(), c) {
                        out.extend([v[i].clone(), TokenTree::Group(Group::new(Delimiter::Bracket, rename_ident(g.stream(), c, c2)))]);
                    }
                }
                i += 2;
            },
            (TokenTree::Group(g), _) => {
                out.extend([TokenTree::Group(Group::new(g.delimiter(), clone_counterpart(g.stream(), c, c2)))]);
                i += 1;
            },
            (t, _) => {
                out.extend([t.clone()]);
                i += 1;
            },
        }
    }
    out
}

fn reparse(text: &str, origin: &str) -> Option<Item> {
    let di: syn::DeriveInput = syn::parse_str(text).ok()?;
    crate::item::from_derive_input(&di, origin)
}

pub fn mutate_corpus_item(rng: &mut Rng, base: &Item) -> Item {
    let mut item = base.clone();
    let mut ops: Vec<String> = Vec::new();
    let n_ops = rng.range(1, 3);
    for _ in 0..n_ops {
        match rng.below(5) {
            0 | 1 => {
                // more counterparts: clone everything dedicated to one of them, 1..3 times
                let cps = single_ident_counterparts(&item);
                if cps.is_empty() {
                    continue;
                }
                let c = rng.pick(&cps).clone();
                let times = rng.range(1, 3);
                for k in 0..times {
                    let c2s = match rng.below(4) {
                        0 => format!("{}{}<'x, &'y str>", c, k + 2),
                        1 => format!("other::{}{}", c, k + 2),
                        _ => format!("{}{}", c, k + 2),
                    };
                    let Ok(c2) = c2s.parse::<TokenStream>() else { continue };
                    let Ok(ts) = item.render().parse::<TokenStream>() else { continue };
                    // the deriving type's own name must stay
                    if c == item.name {
                        continue;
                    }
                    let text = clone_counterpart(ts, &c, &c2).to_string();
                    if let Some(it) = reparse(&text, &item.origin) {
                        item = it;
                        ops.push(format!("clone-counterpart({}->{})", c, c2s));
                    }
                }
            },
            2 => {
                // more members: copies of members (with their instructions) under new names
                let n = item.members.len();
                if n == 0 {
                    continue;
                }
                let times = rng.range(1, 4);
                for k in 0..times {
                    let mi = rng.below(item.members.len() as u64) as usize;
                    let mut m = item.members[mi].clone();
                    if let Ok(ts) = m.decl.parse::<TokenStream>() {
                        let mut v: Vec<TokenTree> = ts.into_iter().collect();
                        // first identifier that is a field / variant name
                        let named = item.is_enum || item.shape == Shape::Named;
                        if named {
                            if let Some(pos) = v.iter().position(|t| matches!(t, TokenTree::Ident(i) if i != "pub" && i != "crate")) {
                                if let TokenTree::Ident(id) = &v[pos] {
                                    v[pos] = TokenTree::Ident(Ident::new(&format!("{}_{}", id, k + 2), id.span()));
                                }
                            }
                        }
                        m.decl = v.into_iter().collect::<TokenStream>().to_string();
                    }
                    let at = rng.below(item.members.len() as u64 + 1) as usize;
                    item.members.insert(at, m);
                }
                ops.push(format!("copy-members(x{})", times));
            },
            3 => {
                rng.shuffle(&mut item.members);
                ops.push("shuffle-members".into());
            },
            _ => {
                rng.shuffle(&mut item.type_attrs);
                ops.push("shuffle-type-attrs".into());
            },
        }
    }
    item.origin = format!("W7[{}]<-{}", ops.join(","), base.origin);
    item
}

const FOREIGN_ATTRS: [&str; 12] = [
    "#[doc = \"documented\"]", "/// a doc comment", "#[serde(rename = \"x\", default)]", "#[allow(dead_code)]", "#[cfg_attr(test, derive(Debug))]", "#[must_use]", "#[repr(C)]", "#[deprecated(note = \"old\")]", "#[validate(length(min = 1))]", "#[sqlx(rename_all = \"snake_case\")]", "#[non_exhaustive]",
    "#[clap(long, short = 'x')]",
];

/// Things a real item carries that o2o must ignore or pass through: foreign attributes and
/// doc comments at every level, visibility, raw identifiers, explicit discriminants.
fn decorate(rng: &mut Rng, item: &mut Item) {
    if item.raw.is_some() {
        return;
    }
    if rng.chance(1, 3) {
        let n = rng.range(1, 3);
        for _ in 0..n {
            let pos = rng.below(item.type_attrs.len() as u64 + 1) as usize;
            item.type_attrs.insert(pos, rng.pick(&FOREIGN_ATTRS).to_string());
        }
    }
    if rng.chance(1, 20) {
        // name-value form of a known instruction name: its own parse path (and a syn2-only error)
        let pos = rng.below(item.type_attrs.len() as u64 + 1) as usize;
        item.type_attrs.insert(pos, format!("#[{} = \"Value\"]", rng.pick(&["map", "ghosts", "where_clause", "o2o"])));
    }
    let is_struct_named = !item.is_enum && item.shape == Shape::Named;
    for m in item.members.iter_mut() {
        if rng.chance(1, 5) {
            let pos = rng.below(m.attrs.len() as u64 + 1) as usize;
            m.attrs.insert(pos, rng.pick(&FOREIGN_ATTRS).to_string());
        }
        if !item.is_enum && rng.chance(1, 4) && !m.decl.starts_with("pub") {
            m.decl = format!("{} {}", rng.pick(&["pub", "pub(crate)", "pub(super)"]), m.decl);
        }
        if is_struct_named && rng.chance(1, 25) {
            // raw identifier as a field name
            let d = m.decl.clone();
            if let Some((name, rest)) = d.split_once(':') {
                if name.trim().chars().all(|c| c.is_alphanumeric() || c == '_') {
                    m.decl = format!("r#{}:{}", rng.pick(&["type", "match", "ref", "fn"]), rest);
                }
            }
        }
        if item.is_enum && rng.chance(1, 12) && !m.decl.contains('(') && !m.decl.contains('{') && !m.decl.contains('=') {
            m.decl = format!("{} = {}", m.decl, rng.below(200));
        }
    }
}

/// A keyword found in the expander's sources that this generator has no rule for (an
/// instruction or parameter a change may have added), tried in the generic shapes the DSL uses.
fn unknown_keyword_attr(rng: &mut Rng, kw: &str) -> String {
    let arg = |rng: &mut Rng| -> String {
        rng.pick(&["clippy::from_over_into", "unused_qualifications", "EntityDto", "x", "dead_code", "a::b::c", "1", "\"s\"", "T: Clone", "{ 1 }", "a: A", "~.clone()", "rust_2018_idioms", "Foo| bar"]).to_string()
    };
    let n = rng.range(0, 4);
    let args: Vec<String> = (0..n).map(|_| arg(rng)).collect();
    let body = if n == 0 && rng.chance(1, 2) { kw.to_string() } else { format!("{}({})", kw, args.join(", ")) };
    if rng.chance(2, 3) {
        format!("#[o2o({})]", body)
    } else {
        format!("#[{}]", body)
    }
}

pub fn generate(rng: &mut Rng, corpus: &Corpus, class: Class) -> Item {
    let mut item = generate_undecorated(rng, corpus, class);
    if !corpus.dict_keywords.is_empty() && item.raw.is_none() && rng.chance(1, 4) {
        let n = rng.range(1, 2);
        for _ in 0..n {
            let kw = rng.pick(&corpus.dict_keywords).clone();
            let a = unknown_keyword_attr(rng, &kw);
            if item.members.is_empty() || rng.chance(2, 3) {
                let pos = rng.below(item.type_attrs.len() as u64 + 1) as usize;
                item.type_attrs.insert(pos, a);
            } else {
                let mi = rng.below(item.members.len() as u64) as usize;
                item.members[mi].attrs.push(a);
            }
        }
        // ... or as a parameter of a trait instruction
        if rng.chance(1, 3) {
            let kw = rng.pick(&corpus.dict_keywords).clone();
            for a in item.type_attrs.iter_mut() {
                if a.ends_with(")]") && (a.contains("map(") || a.contains("into(") || a.contains("from(")) && !a.contains('|') && rng.chance(1, 2) {
                    let cut = a.len() - 2;
                    *a = format!("{}| {}(x, y))]", &a[..cut], kw);
                    break;
                }
            }
        }
    }
    if rng.chance(1, 3) {
        decorate(rng, &mut item);
    }
    if item.raw.is_none() && rng.chance(1, 6) {
        collide_names(rng, corpus, &mut item);
    }
    if item.raw.is_none() && rng.chance(1, 8) {
        let n = rng.range(1, 3);
        for _ in 0..n {
            extend_a_list(rng, &mut item);
        }
    }
    if item.raw.is_none() && rng.chance(1, 10) {
        typo_instruction(rng, &mut item);
    }
    item
}

/// Multiplicity everywhere: wherever the DSL takes a comma-separated list (ghost names, vars,
/// child_parents entries, where-clause predicates, instruction parameters, patterns), one
/// element is duplicated under a new leading name (`a: { .. }` -> `a: { .. }, a_2: { .. }`).
/// Knows nothing about what the list means.
fn extend_a_list(rng: &mut Rng, item: &mut Item) {
    let total = item.n_attrs();
    if total == 0 {
        return;
    }
    let pick = rng.below(total as u64) as usize;
    let attr: &mut String = if pick < item.type_attrs.len() {
        &mut item.type_attrs[pick]
    } else {
        let mut r = pick - item.type_attrs.len();
        let mut found = None;
        for m in item.members.iter_mut() {
            if r < m.attrs.len() {
                found = Some(&mut m.attrs[r]);
                break;
            }
            r -= m.attrs.len();
        }
        match found {
            Some(a) => a,
            None => return,
        }
    };
    // all parenthesised groups: (open, close) byte positions, brace/bracket/paren aware
    let b: Vec<char> = attr.chars().collect();
    let mut stack: Vec<(usize, char)> = Vec::new();
    let mut groups: Vec<(usize, usize)> = Vec::new();
    let mut in_str = false;
    for (i, c) in b.iter().enumerate() {
        if *c == '"' && (i == 0 || b[i - 1] != '\\') {
            in_str = !in_str;
        }
        if in_str {
            continue;
        }
        match c {
            '(' | '{' | '[' => stack.push((i, *c)),
            ')' | '}' | ']' => {
                if let Some((o, oc)) = stack.pop() {
                    if oc == '(' && *c == ')' {
                        groups.push((o, i));
                    }
                }
            },
            _ => {},
        }
    }
    if groups.is_empty() {
        return;
    }
    let (o, cl) = groups[rng.below(groups.len() as u64) as usize];
    // top-level elements of the group, after an optional `Type|` prefix
    let inner: Vec<char> = b[o + 1..cl].to_vec();
    let mut depth = 0i32;
    let mut start = 0usize;
    let mut elems: Vec<(usize, usize)> = Vec::new();
    let mut in_str = false;
    for (i, c) in inner.iter().enumerate() {
        if *c == '"' {
            in_str = !in_str;
        }
        if in_str {
            continue;
        }
        match c {
            '(' | '{' | '[' | '<' => depth += 1,
            ')' | '}' | ']' => depth -= 1,
            '>' if i > 0 && inner[i - 1] != '-' && inner[i - 1] != '=' => depth -= 1,
            '|' if depth == 0 && elems.is_empty() && start == 0 => start = i + 1,
            ',' if depth == 0 => {
                elems.push((start, i));
                start = i + 1;
            },
            _ => {},
        }
    }
    if start < inner.len() {
        elems.push((start, inner.len()));
    }
    let elems: Vec<(usize, usize)> = elems.into_iter().filter(|(a, z)| inner[*a..*z].iter().any(|c| !c.is_whitespace())).collect();
    if elems.is_empty() {
        return;
    }
    let (a, z) = elems[rng.below(elems.len() as u64) as usize];
    let elem: String = inner[a..z].iter().collect();
    let t = elem.trim_start();
    let lead: String = t.chars().take_while(|c| c.is_alphanumeric() || *c == '_').collect();
    if lead.is_empty() || lead.chars().all(|c| c.is_ascii_digit()) {
        return;
    }
    let renamed = format!(" {}_2{}", lead, &t[lead.len()..]);
    let insert_at = o + 1 + z;
    let mut out: String = b[..insert_at].iter().collect();
    out.push(',');
    out.push_str(&renamed);
    out.extend(b[insert_at..].iter());
    *attr = out;
    item.origin = format!("{}+list", item.origin);
}

/// One typing error in the instruction name of a random attribute of the item.
pub fn typo_instruction(rng: &mut Rng, item: &mut Item) {
    let n = item.n_attrs();
    if n == 0 {
        item.type_attrs.push("#[o2o(mapp(X))]".into());
        return;
    }
    let pick = rng.below(n as u64) as usize;
    let attr: &mut String = if pick < item.type_attrs.len() {
        &mut item.type_attrs[pick]
    } else {
        let mut r = pick - item.type_attrs.len();
        let mut found: Option<&mut String> = None;
        for m in item.members.iter_mut() {
            if r < m.attrs.len() {
                found = Some(&mut m.attrs[r]);
                break;
            }
            r -= m.attrs.len();
        }
        match found {
            Some(a) => a,
            None => return,
        }
    };
    // the instruction name: the identifier after `#[`, or after `#[o2o(`
    let start = if attr.starts_with("#[o2o(") { 6 } else if attr.starts_with("#[") { 2 } else { 0 };
    let end = start + attr[start..].chars().take_while(|c| c.is_ascii_alphanumeric() || *c == '_').map(|c| c.len_utf8()).sum::<usize>();
    if end <= start + 1 || !attr.ends_with(']') {
        return;
    }
    let name: Vec<char> = attr[start..end].chars().collect();
    let letter = (b'a' + rng.below(26) as u8) as char;
    let mut t: Vec<char> = name.clone();
    match rng.below(6) {
        0 => t.push(letter),
        1 => {
            let l = t.len();
            t[l - 1] = letter;
        },
        2 => {
            t.pop();
        },
        3 => {
            let k = rng.below(t.len() as u64) as usize;
            t.insert(k, name[k]);
        },
        4 if t.len() >= 2 => {
            let k = rng.below(t.len() as u64 - 1) as usize;
            t.swap(k, k + 1);
        },
        _ => {
            let k = rng.below(t.len() as u64) as usize;
            t[k] = letter;
        },
    }
    let typo: String = t.into_iter().collect();
    attr.replace_range(start..end, &typo);
    // (a bare attribute with an unknown name is rejected by rustc before the derive runs, and
    // the expander's hints are for its own wrapper: use the wrapper)
    if start == 2 {
        let body = attr[2..attr.len() - 1].to_string();
        *attr = format!("#[o2o({})]", body);
    }
    item.origin = format!("{}+typo", item.origin);
}

/// whole-word replacement (`from` not followed or preceded by an identifier character; a
/// lifetime `'a` is not the start of the char literal `'a'`)
fn replace_word(text: &str, from: &str, to: &str) -> String {
    let b = text.as_bytes();
    let is_id = |c: u8| c.is_ascii_alphanumeric() || c == b'_';
    let mut out = String::with_capacity(text.len());
    let mut i = 0;
    while i < b.len() {
        if text[i..].starts_with(from) {
            let lt = from.starts_with('\'');
            let after = i + from.len();
            let before_ok = lt || i == 0 || !(is_id(b[i - 1]) || b[i - 1] == b'\'');
            let after_ok = after >= b.len() || !(is_id(b[after]) || (lt && b[after] == b'\''));
            if before_ok && after_ok {
                out.push_str(to);
                i = after;
                continue;
            }
        }
        let ch = text[i..].chars().next().unwrap();
        out.push(ch);
        i += ch.len_utf8();
    }
    out
}

/// An input may use the very names the expander's templates use: a lifetime the generated
/// impls introduce (`'o2o`), a binding of the generated bodies (`value`, `other`).  One name of
/// the item -- a lifetime, or a field -- is renamed, everywhere in the item, to a name taken
/// from the sources of the tree under test.
fn collide_names(rng: &mut Rng, corpus: &Corpus, item: &mut Item) {
    let everywhere = |item: &mut Item, from: &str, to: &str| {
        for a in item.type_attrs.iter_mut() {
            *a = replace_word(a, from, to);
        }
        item.generics = replace_word(&item.generics, from, to);
        item.where_clause = replace_word(&item.where_clause, from, to);
        for m in item.members.iter_mut() {
            for a in m.attrs.iter_mut() {
                *a = replace_word(a, from, to);
            }
            m.decl = replace_word(&m.decl, from, to);
        }
    };
    let lifetime_turn = !corpus.dict_lifetimes.is_empty() && (corpus.dict_idents.is_empty() || rng.chance(1, 2));
    if lifetime_turn {
        let to = rng.pick(&corpus.dict_lifetimes).clone();
        // a lifetime the item declares; if it declares none, it gets one (used by a new field)
        let declared: Vec<String> = ["'a", "'b", "'c", "'x", "'y", "'z"].iter().filter(|l| replace_word(&item.generics, l, "") != item.generics).map(|s| s.to_string()).collect();
        if let Some(from) = declared.first() {
            everywhere(item, from, &to);
        } else if !item.is_enum && item.shape == crate::item::Shape::Named {
            item.generics = if item.generics.is_empty() { format!("<{}>", to) } else { format!("<{}, {}", to, &item.generics[1..]) };
            item.members.push(crate::item::Member { attrs: vec![], decl: format!("borrowed_text: &{} str", to) });
        }
        item.origin = format!("{}+lifetime[{}]", item.origin, to);
    } else if !corpus.dict_idents.is_empty() && !item.is_enum && item.shape == crate::item::Shape::Named && !item.members.is_empty() {
        let to = rng.pick(&corpus.dict_idents).clone();
        let mi = rng.below(item.members.len() as u64) as usize;
        let from: String = item.members[mi].decl.split(':').next().unwrap_or("").trim().trim_start_matches("pub ").trim().to_string();
        if !from.is_empty() && from.chars().all(|c| c.is_ascii_alphanumeric() || c == '_') && !item.members.iter().any(|m| m.decl.trim_start().starts_with(&format!("{}:", to))) {
            everywhere(item, &from, &to);
            item.origin = format!("{}+field[{}]", item.origin, to);
        }
    }
}

fn generate_undecorated(rng: &mut Rng, corpus: &Corpus, class: Class) -> Item {
    match class {
        Class::W7CorpusMutant => {
            if corpus.items.is_empty() {
                gen_struct(rng, Class::W2MultiCounterpart)
            } else {
                let base = corpus.items[rng.below(corpus.items.len() as u64) as usize].clone();
                mutate_corpus_item(rng, &base)
            }
        },
        Class::W6Corpus => {
            if corpus.items.is_empty() {
                gen_struct(rng, Class::W2MultiCounterpart)
            } else {
                corpus.items[rng.below(corpus.items.len() as u64) as usize].clone()
            }
        },
        Class::W5Enum => {
            if rng.chance(1, 40) {
                // not a struct or enum at all
                let mut it = gen_struct(rng, class);
                let attrs = it.type_attrs.join("\n");
                it.raw = Some(format!("{}\nunion {} {{ a: u32, b: f32 }}\n", attrs, it.name));
                it.origin = "W5[union]".into();
                it
            } else {
                gen_enum(rng, class)
            }
        },
        Class::W1MultiMisuse => {
            let mut base = match rng.below(5) {
                0 => gen_enum(rng, class),
                1 if !corpus.items.is_empty() => corpus.items[rng.below(corpus.items.len() as u64) as usize].clone(),
                2 if !corpus.items.is_empty() => {
                    let b = corpus.items[rng.below(corpus.items.len() as u64) as usize].clone();
                    mutate_corpus_item(rng, &b)
                },
                _ => gen_struct(rng, class),
            };
            let k = rng.range(2, 8);
            let mut tags: Vec<&str> = Vec::new();
            for _ in 0..k {
                let which = rng.below(N_MISUSES as u64) as usize;
                tags.push(inject_misuse(rng, &mut base, which));
                // the same rule broken again somewhere else: same message, another span
                if rng.chance(1, 3) {
                    let again = rng.range(1, 2);
                    for _ in 0..again {
                        inject_misuse(rng, &mut base, which);
                    }
                }
            }
            base.origin = format!("W1[{}]<-{}", tags.join(","), base.origin);
            base
        },
        Class::W4Repeat => {
            if rng.chance(1, 3) {
                gen_enum(rng, class)
            } else {
                gen_struct(rng, class)
            }
        },
        _ => gen_struct(rng, class),
    }
}

/// A copy of `item` with one small edit: a flag parameter toggled (`repeat()` <-> `repeat(permeate())`,
/// `skip_repeat`, `stop_repeat` dropped), one attribute dropped, a number changed, or the type renamed.
pub fn sibling(rng: &mut Rng, item: &Item) -> Item {
    let mut it = item.clone();
    it.origin = format!("{}+sibling", it.origin);
    let all_attrs = |it: &mut Item, f: &mut dyn FnMut(&mut String) -> bool| -> bool {
        let mut done = false;
        for a in it.type_attrs.iter_mut() {
            if !done && f(a) {
                done = true;
            }
        }
        for m in it.members.iter_mut() {
            for a in m.attrs.iter_mut() {
                if !done && f(a) {
                    done = true;
                }
            }
            // attributes of an enum variant's own fields live in the declaration
            if !done && f(&mut m.decl) {
                done = true;
            }
        }
        done
    };
    // flag toggles first: they keep both expansions on the same path with a different value
    const TOGGLES: [(&str, &str); 8] = [("repeat(permeate())", "repeat()"), ("repeat()", "repeat(permeate())"), ("permeate(), ", ""), ("#[repeat]", "#[repeat(permeate())]"), ("#[skip_repeat]", ""), ("#[stop_repeat]", ""), ("allow_unknown", "allow_unknown, allow_unknown"), ("#[repeat(", "#[repeat(permeate(), ")];
    let start = rng.below(TOGGLES.len() as u64) as usize;
    if rng.chance(2, 3) {
        for t in 0..TOGGLES.len() {
            let (from, to) = TOGGLES[(start + t) % TOGGLES.len()];
            if all_attrs(&mut it, &mut |a: &mut String| {
                if let Some(p) = a.find(from) {
                    a.replace_range(p..p + from.len(), to);
                    true
                } else {
                    false
                }
            }) {
                return it;
            }
        }
    }
    match rng.below(4) {
        0 if it.n_attrs() > 1 => {
            // drop one attribute
            let n = rng.below(it.n_attrs() as u64) as usize;
            if n < it.type_attrs.len() {
                it.type_attrs.remove(n);
            } else {
                let mut r = n - it.type_attrs.len();
                for m in it.members.iter_mut() {
                    if r < m.attrs.len() {
                        m.attrs.remove(r);
                        break;
                    }
                    r -= m.attrs.len();
                }
            }
        },
        1 => {
            // change a digit somewhere in an attribute
            let d = (b'0' + rng.below(10) as u8) as char;
            all_attrs(&mut it, &mut |a: &mut String| {
                if let Some(p) = a.char_indices().find(|(i, c)| c.is_ascii_digit() && *i > 2).map(|x| x.0) {
                    a.replace_range(p..p + 1, &d.to_string());
                    true
                } else {
                    false
                }
            });
        },
        2 if !it.members.is_empty() => {
            // move one member's attributes to another member
            let from = rng.below(it.members.len() as u64) as usize;
            let to = rng.below(it.members.len() as u64) as usize;
            if from != to {
                let moved = std::mem::take(&mut it.members[from].attrs);
                it.members[to].attrs.extend(moved);
            }
        },
        _ => {
            it.name = format!("{}Sib", it.name);
        },
    }
    it
}
