//! Oracle for C19: every observation of an input must render byte-for-byte like the
//! reference observation of the same input.  Nothing about the *content* of an expansion is
//! assumed -- the property is self-consistency, and demanding more would exceed it.

use crate::plan::{HostLog, Obs};

#[derive(Clone, Debug, PartialEq, Eq)]
pub struct Divergence {
    pub host: usize,
    pub pos: usize,
    pub input: u32,
    /// "verdict" | "text" | "spans"
    pub channel: &'static str,
    pub reference: Obs,
    pub observed: Obs,
}

pub fn channel_of(a: &Obs, b: &Obs) -> Option<&'static str> {
    if a.verdict != b.verdict {
        Some("verdict")
    } else if a.text != b.text {
        Some("text")
    } else if a.spans != b.spans {
        Some("spans")
    } else {
        None
    }
}

/// First divergence of `log` (host index `host`) from the reference log, in event order.
pub fn first_divergence(reference: &HostLog, log: &HostLog, host: usize) -> Option<Divergence> {
    for o in &log.obs {
        // the reference observation of an input is its *first* expansion on the reference host
        let Some(r) = reference.obs.iter().find(|r| r.input == o.input && r.token_built == o.token_built) else { continue };
        if let Some(ch) = channel_of(r, o) {
            return Some(Divergence { host, pos: o.pos, input: o.input, channel: ch, reference: r.clone(), observed: o.clone() });
        }
    }
    None
}

/// Divergences *inside* one log: the same input expanded twice on one host.
pub fn self_divergence(log: &HostLog, host: usize) -> Option<Divergence> {
    for (i, o) in log.obs.iter().enumerate() {
        if let Some(r) = log.obs[..i].iter().find(|r| r.input == o.input && r.token_built == o.token_built) {
            if let Some(ch) = channel_of(r, o) {
                return Some(Divergence { host, pos: o.pos, input: o.input, channel: ch, reference: r.clone(), observed: o.clone() });
            }
        }
    }
    None
}

pub fn first_diff(a: &str, b: &str) -> String {
    let ab = a.as_bytes();
    let bb = b.as_bytes();
    let mut i = 0;
    while i < ab.len() && i < bb.len() && ab[i] == bb[i] {
        i += 1;
    }
    // back up to a char boundary
    let mut s = i.saturating_sub(30);
    while s > 0 && !a.is_char_boundary(s) {
        s -= 1;
    }
    let clip = |x: &str| -> String {
        let mut e = (s + 110).min(x.len());
        while e < x.len() && !x.is_char_boundary(e) {
            e += 1;
        }
        let mut st = s.min(x.len());
        while st > 0 && !x.is_char_boundary(st) {
            st -= 1;
        }
        x[st..e].replace('\u{1f}', " | ")
    };
    format!("at byte {}: reference ...{}... vs observed ...{}...", i, clip(a), clip(b))
}

/// Is this input one whose output could be affected by an ordering fault at all?
/// (>= 2 o2o diagnostics besides the root one, or >= 2 impl items)
pub fn order_sensitive(o: &Obs) -> bool {
    match o.verdict.as_str() {
        "ERR" => o.text.matches('\u{1f}').count() >= 3,
        "OK" => o.text.matches("impl ").count() >= 2,
        _ => false,
    }
}
