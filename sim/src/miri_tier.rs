//! Tier M (thorough, optional cross-check): the same host program, interpreted by Miri.
//! Miri is an off-the-shelf deterministic simulator of exactly two of the fault kinds: with
//! isolation on, `getrandom` (hence `RandomState`) and the addresses of all allocations are
//! functions of `-Zmiri-seed`.  A small panel of order-sensitive inputs is expanded on the
//! main thread and again on a fresh thread under several seeds; every rendering must equal
//! the one under seed 0.  This is a second opinion on F1 (entropy) and F6 (addresses) from an
//! engine that shares no code with the shim.  If the nightly toolchain or Miri is not
//! usable the tier reports that and is skipped -- it never turns into an alarm.

use crate::corpus::Corpus;
use crate::oracle::first_diff;
use crate::plan::{parse_log, Backend};
use crate::rustc_tier::select_items;
use crate::Cfg;
use serde_json::{json, Value};
use std::path::{Path, PathBuf};
use std::process::{Command, Stdio};
use std::sync::atomic::{AtomicUsize, Ordering};
use std::sync::Mutex;

pub struct TierResult {
    pub json: Value,
    pub violation: Option<(String, PathBuf)>,
}

fn esc(s: &str) -> String {
    let mut o = String::new();
    for c in s.chars() {
        match c {
            '\\' => o.push_str("\\\\"),
            '\n' => o.push_str("\\n"),
            '\r' => o.push_str("\\r"),
            ' ' => o.push_str("\\s"),
            c => o.push(c),
        }
    }
    o
}

fn run_seed(host_dir: &Path, target: &Path, seed: u64, plan: &str) -> Result<String, String> {
    let mut c = Command::new("cargo");
    c.current_dir(host_dir);
    c.args(["+nightly", "miri", "run", "--offline", "-q", "--"]);
    // with isolation on the interpreted program cannot read stdin: the history travels in argv
    c.arg(format!("--plan={}", plan));
    c.env("CARGO_NET_OFFLINE", "true");
    c.env("CARGO_TARGET_DIR", target);
    c.env("MIRIFLAGS", format!("-Zmiri-seed={}", seed));
    c.env_remove("RUSTFLAGS");
    c.env_remove("LD_PRELOAD");
    c.stdin(Stdio::null()).stdout(Stdio::piped()).stderr(Stdio::piped());
    let child = c.spawn().map_err(|e| format!("spawn cargo miri: {}", e))?;
    let out = child.wait_with_output().map_err(|e| e.to_string())?;
    if !out.status.success() {
        return Err(format!("cargo miri run failed: {}", String::from_utf8_lossy(&out.stderr).lines().rev().take(6).collect::<Vec<_>>().join(" / ")));
    }
    Ok(String::from_utf8_lossy(&out.stdout).into_owned())
}

pub fn build_plan(texts: &[String]) -> String {
    let mut plan = String::new();
    for (i, t) in texts.iter().enumerate() {
        plan.push_str(&format!("I {} {}\n", i, esc(t)));
    }
    let mut pos = 0;
    for i in 0..texts.len() {
        plan.push_str(&format!("E {} 0 {}\n", pos, i));
        pos += 1;
    }
    plan.push_str("T 1\n");
    for i in (0..texts.len()).rev() {
        plan.push_str(&format!("E {} 1 {}\n", pos, i));
        pos += 1;
    }
    plan
}

fn renderings(log: &str) -> Result<Vec<(u32, String)>, String> {
    // the host under Miri has no shim: its S line carries zeros but is well-formed
    let l = parse_log(log).map_err(|e| e.0)?;
    Ok(l.obs.iter().map(|o| (o.input, format!("{}\u{1e}{}\u{1e}{}", o.verdict, o.text, o.spans))).collect())
}

pub fn run(cfg: &Cfg, corpus: &Corpus) -> Result<TierResult, String> {
    let t0 = std::time::Instant::now();
    let host_dir = cfg.build_dir.join(format!("host-{}-plain", Backend::Syn1.tag()));
    let target = cfg.build_dir.join("target-miri");
    // availability probe: never an alarm
    let probe = Command::new("cargo").args(["+nightly", "miri", "--version"]).output();
    if !probe.map(|o| o.status.success()).unwrap_or(false) {
        return Ok(TierResult { json: json!({"ran": false, "note": "cargo +nightly miri not available; tier skipped"}), violation: None });
    }
    let sel = select_items(cfg, corpus)?;
    // short inputs only: Miri runs at roughly 1-2 s per expansion
    let mut texts: Vec<String> = Vec::new();
    let mut rej: Vec<&String> = sel.rej.iter().filter(|t| t.len() < 500).collect();
    rej.sort_by_key(|t| t.len());
    let mut acc: Vec<&String> = sel.acc.iter().filter(|t| t.len() < 500 && (t.contains("child") || t.contains("parent") || t.matches("#[").count() >= 4)).collect();
    acc.sort_by_key(|t| t.len());
    let n_inputs: usize = std::env::var("SIM_MIRI_INPUTS").ok().and_then(|s| s.parse().ok()).unwrap_or(6);
    for t in rej.iter().take(n_inputs / 2) {
        texts.push((*t).clone());
    }
    for t in acc.iter().take(n_inputs - texts.len()) {
        texts.push((*t).clone());
    }
    if texts.is_empty() {
        return Ok(TierResult { json: json!({"ran": false, "note": "no suitable inputs"}), violation: None });
    }
    let plan = build_plan(&texts);
    let n_seeds: u64 = std::env::var("SIM_MIRI_SEEDS").ok().and_then(|s| s.parse().ok()).unwrap_or(8);

    // seed 0 first (also builds the Miri sysroot and the host once)
    let reference = match run_seed(&host_dir, &target, 0, &plan) {
        Ok(r) => r,
        Err(e) => return Ok(TierResult { json: json!({"ran": false, "note": format!("Miri could not run the host: {}", e)}), violation: None }),
    };
    let ref_r = renderings(&reference)?;
    // inside one interpreted process: main thread vs fresh thread
    let mut violation: Option<(String, u64, u64)> = None;
    for (i, a) in ref_r.iter().enumerate() {
        if let Some(b) = ref_r[..i].iter().find(|b| b.0 == a.0) {
            if a.1 != b.1 && violation.is_none() {
                violation = Some((format!("input {} rendered differently on the main thread and on a fresh thread under Miri seed 0: {}", a.0, first_diff(&b.1, &a.1)), 0, 0));
            }
        }
    }
    let seeds: Vec<u64> = (1..n_seeds).collect();
    let next = AtomicUsize::new(0);
    let results: Mutex<Vec<(u64, Result<String, String>)>> = Mutex::new(Vec::new());
    std::thread::scope(|s| {
        for _ in 0..8.min(seeds.len()) {
            s.spawn(|| loop {
                let i = next.fetch_add(1, Ordering::SeqCst);
                if i >= seeds.len() {
                    break;
                }
                let r = run_seed(&host_dir, &target, seeds[i], &plan);
                results.lock().unwrap().push((seeds[i], r));
            });
        }
    });
    let mut results = results.into_inner().unwrap();
    results.sort_by_key(|r| r.0);
    let mut equal = 0;
    let mut failed_runs = 0;
    for (seed, r) in &results {
        match r {
            Ok(log) => {
                let rr = renderings(log)?;
                let mut same = true;
                for (k, a) in rr.iter().enumerate() {
                    let b = &ref_r[k.min(ref_r.len() - 1)];
                    if a != b {
                        same = false;
                        if violation.is_none() {
                            violation = Some((format!("input {} rendered differently under Miri seeds 0 and {}: {}", a.0, seed, first_diff(&b.1, &a.1)), 0, *seed));
                        }
                        break;
                    }
                }
                if same {
                    equal += 1;
                }
            },
            Err(_) => failed_runs += 1,
        }
    }
    let mut vio_out = None;
    if let Some((msg, sa, sb)) = &violation {
        let path = cfg.verif.join("replays").join(format!("C19-{}-miri.json", cfg.seed));
        let _ = std::fs::create_dir_all(cfg.verif.join("replays"));
        let v = json!({"property": "C19", "kind": "miri_tier", "what": msg, "repo": cfg.repo.to_string_lossy(), "plan": plan, "seed_a": sa, "seed_b": sb});
        std::fs::write(&path, serde_json::to_string_pretty(&v).unwrap()).map_err(|e| e.to_string())?;
        vio_out = Some((msg.clone(), path));
    }
    Ok(TierResult {
        json: json!({"ran": true, "inputs": texts.len(), "expansions_per_seed": texts.len() * 2, "seeds": n_seeds, "runs_equal_to_seed0": equal, "runs_failed_to_execute": failed_runs, "wall_s": t0.elapsed().as_secs_f64(),
                     "what_varies": "with isolation on, Miri derives getrandom (RandomState keys) and all allocation addresses from -Zmiri-seed"}),
        violation: vio_out,
    })
}

pub fn replay(cfg: &Cfg, v: &Value, path: &Path) -> i32 {
    let host_dir = cfg.build_dir.join(format!("host-{}-plain", Backend::Syn1.tag()));
    let target = cfg.build_dir.join("target-miri");
    let plan = v["plan"].as_str().unwrap_or("").to_string();
    let (sa, sb) = (v["seed_a"].as_u64().unwrap_or(0), v["seed_b"].as_u64().unwrap_or(1));
    match (run_seed(&host_dir, &target, sa, &plan), run_seed(&host_dir, &target, sb, &plan)) {
        (Ok(a), Ok(b)) => {
            let (Ok(ra), Ok(rb)) = (renderings(&a), renderings(&b)) else { return 2 };
            let mut differs = ra != rb;
            for (i, x) in ra.iter().enumerate() {
                if let Some(y) = ra[..i].iter().find(|y| y.0 == x.0) {
                    if x.1 != y.1 {
                        differs = true;
                    }
                }
            }
            if differs {
                println!("replay (miri tier): renderings differ");
                println!("VIOLATION property=C19 replay={}", path.display());
                1
            } else {
                println!("replay (miri tier): no longer reproduces");
                0
            }
        },
        (Err(e), _) | (_, Err(e)) => {
            eprintln!("harness error: {}", e);
            2
        },
    }
}
