//! Tier M (thorough, optional cross-check): the same host program, interpreted by Miri.
//! Miri is an off-the-shelf deterministic simulator of exactly two of the fault kinds: with
//! isolation on, `getrandom` (hence `RandomState`) and the addresses of all allocations are
//! functions of `-Zmiri-seed`.  A small panel of order-sensitive inputs is expanded on the
//! main thread and again on a fresh thread under several seeds; every rendering must equal
//! the one under seed 0.  This is a second opinion on F1 (entropy) and F6 (addresses) from an
//! engine that shares no code with the shim.  If the nightly toolchain or Miri is not
//! usable the tier reports that and is skipped -- it never turns into an alarm.

use crate::corpus::Corpus;
use crate::oracle::first_diff;
use crate::plan::{parse_log, Backend};
use crate::rustc_tier::select_items;
use crate::Cfg;
use serde_json::{json, Value};
use std::path::{Path, PathBuf};
use std::process::{Command, Stdio};
use std::sync::atomic::{AtomicUsize, Ordering};
use std::sync::Mutex;

pub struct TierResult {
    pub json: Value,
    pub violation: Option<(String, PathBuf)>,
}

fn esc(s: &str) -> String {
    let mut o = String::new();
    for c in s.chars() {
        match c {
            '\\' => o.push_str("\\\\"),
            '\n' => o.push_str("\\n"),
            '\r' => o.push_str("\\r"),
            ' ' => o.push_str("\\s"),
            c => o.push(c),
        }
    }
    o
}

fn run_seed(host_dir: &Path, target: &Path, seed: u64, plan: &str) -> Result<String, String> {
    run_seed_rate(host_dir, target, seed, None, plan)
}

/// `rate`: Miri's probability of preempting the running thread at the end of a basic block
fn run_seed_rate(host_dir: &Path, target: &Path, seed: u64, rate: Option<&str>, plan: &str) -> Result<String, String> {
    run_seed_on(host_dir, target, seed, rate, None, plan)
}

/// `machine`: interpret the host for another target triple (Miri builds that target's
/// sysroot from rust-src, offline): a simulated build host with another word size / byte order
fn run_seed_on(host_dir: &Path, target: &Path, seed: u64, rate: Option<&str>, machine: Option<&str>, plan: &str) -> Result<String, String> {
    let mut c = Command::new("cargo");
    c.current_dir(host_dir);
    c.args(["+nightly", "miri", "run", "--offline", "-q"]);
    if let Some(m) = machine {
        c.args(["--target", m]);
    }
    c.arg("--");
    // with isolation on the interpreted program cannot read stdin: the history travels in argv
    c.arg(format!("--plan={}", plan));
    c.env("CARGO_NET_OFFLINE", "true");
    c.env("CARGO_TARGET_DIR", target);
    match rate {
        Some(r) => c.env("MIRIFLAGS", format!("-Zmiri-seed={} -Zmiri-preemption-rate={}", seed, r)),
        None => c.env("MIRIFLAGS", format!("-Zmiri-seed={}", seed)),
    };
    c.env_remove("RUSTFLAGS");
    c.env_remove("LD_PRELOAD");
    c.stdin(Stdio::null()).stdout(Stdio::piped()).stderr(Stdio::piped());
    let child = c.spawn().map_err(|e| format!("spawn cargo miri: {}", e))?;
    let out = child.wait_with_output().map_err(|e| e.to_string())?;
    if !out.status.success() {
        return Err(format!("cargo miri run failed: {}", String::from_utf8_lossy(&out.stderr).lines().rev().take(6).collect::<Vec<_>>().join(" / ")));
    }
    Ok(String::from_utf8_lossy(&out.stdout).into_owned())
}

pub fn build_plan(texts: &[String]) -> String {
    let mut plan = String::new();
    for (i, t) in texts.iter().enumerate() {
        plan.push_str(&format!("I {} {}\n", i, esc(t)));
    }
    let mut pos = 0;
    for i in 0..texts.len() {
        plan.push_str(&format!("E {} 0 {}\n", pos, i));
        pos += 1;
    }
    plan.push_str("T 1\n");
    for i in (0..texts.len()).rev() {
        plan.push_str(&format!("E {} 1 {}\n", pos, i));
        pos += 1;
    }
    plan
}

/// Copies of a small input whose type names are *fresh* (`EntityDto` -> `EntityDtoV3`): whatever
/// process-wide state an expander keeps about a name is, for each copy, initialised by the
/// racing threads themselves, however many copies one interpreted process goes through.
pub fn fresh_name_variants(bases: &[String], per_base: usize) -> Vec<String> {
    const KEEP: [&str; 24] = ["String", "Vec", "Option", "Some", "None", "Ok", "Err", "Box", "Self", "Default", "Result", "Into", "From", "Clone", "Copy", "Sized", "Send", "Sync", "Iterator", "Item", "Fn", "PartialEq", "Cow", "HashMap"];
    let mut out = Vec::new();
    for (bi, b) in bases.iter().enumerate() {
        for v in 0..per_base {
            let chars: Vec<char> = b.chars().collect();
            let mut t = String::with_capacity(b.len() + 64);
            let mut i = 0;
            while i < chars.len() {
                let c = chars[i];
                let start_of_word = c.is_ascii_uppercase() && (i == 0 || !(chars[i - 1].is_alphanumeric() || chars[i - 1] == '_' || chars[i - 1] == '\'' || chars[i - 1] == '"'));
                if start_of_word {
                    let mut j = i;
                    while j < chars.len() && (chars[j].is_alphanumeric() || chars[j] == '_') {
                        j += 1;
                    }
                    let w: String = chars[i..j].iter().collect();
                    t.push_str(&w);
                    // (single capital letters are type parameters)
                    if w.len() > 1 && !KEEP.contains(&w.as_str()) {
                        t.push_str(&format!("V{}x{}", bi, v));
                    }
                    i = j;
                } else {
                    t.push(c);
                    i += 1;
                }
            }
            out.push(t);
        }
    }
    out
}

/// Free-running groups (`Y` records): two worker threads start an expansion of the *same*
/// input together and Miri's seeded scheduler interleaves them, preempting at basic-block
/// boundaries; a seeded head start moves their relative position around.
pub fn build_pair_plan(texts: &[String], seed: u64) -> String {
    let mut rng = crate::prng::Rng::new(seed ^ 0x6d69_7269_5f70);
    let mut plan = String::new();
    for (i, t) in texts.iter().enumerate() {
        plan.push_str(&format!("I {} {}\n", i, esc(t)));
    }
    plan.push_str("T 1\nT 2\n");
    let mut pos = 0;
    for k in 0..texts.len() {
        let (s1, s2) = match rng.below(3) {
            0 => (0, rng.below(200)),
            1 => (rng.below(200), 0),
            _ => (0, 0),
        };
        // mostly the same input on both threads; sometimes its neighbour
        let other = if rng.chance(1, 5) { (k + 1) % texts.len() } else { k };
        plan.push_str(&format!("Y 2 {} 1 {} {} {} 2 {} {}\n", pos, k, s1, pos + 1, other, s2));
        pos += 2;
    }
    plan
}

/// the same inputs, one after the other on the main thread: the reference for the pairs
pub fn build_alone_plan(texts: &[String]) -> String {
    let mut plan = String::new();
    for (i, t) in texts.iter().enumerate() {
        plan.push_str(&format!("I {} {}\n", i, esc(t)));
    }
    for i in 0..texts.len() {
        plan.push_str(&format!("E {} 0 {}\n", i, i));
    }
    plan
}

fn renderings(log: &str) -> Result<Vec<(u32, String)>, String> {
    // the host under Miri has no shim: its S line carries zeros but is well-formed
    let l = parse_log(log).map_err(|e| e.0)?;
    Ok(l.obs.iter().map(|o| (o.input, format!("{}\u{1e}{}\u{1e}{}", o.verdict, o.text, o.spans))).collect())
}

pub fn run(cfg: &Cfg, corpus: &Corpus) -> Result<TierResult, String> {
    let t0 = std::time::Instant::now();
    let host_dir = cfg.build_dir.join(format!("host-{}-plain", Backend::Syn1.tag()));
    let target = cfg.build_dir.join("target-miri");
    // availability probe: never an alarm
    let probe = Command::new("cargo").args(["+nightly", "miri", "--version"]).output();
    if !probe.map(|o| o.status.success()).unwrap_or(false) {
        return Ok(TierResult { json: json!({"ran": false, "note": "cargo +nightly miri not available; tier skipped"}), violation: None });
    }
    let sel = select_items(cfg, corpus)?;
    // short inputs only: Miri runs at roughly 1-2 s per expansion
    let mut texts: Vec<String> = Vec::new();
    let mut rej: Vec<&String> = sel.rej.iter().filter(|t| t.len() < 500).collect();
    rej.sort_by_key(|t| t.len());
    let mut acc: Vec<&String> = sel.acc.iter().filter(|t| t.len() < 500 && (t.contains("child") || t.contains("parent") || t.contains("| ") || t.matches("#[").count() >= 4)).collect();
    acc.sort_by_key(|t| t.len());
    let n_inputs: usize = std::env::var("SIM_MIRI_INPUTS").ok().and_then(|s| s.parse().ok()).unwrap_or(6);
    for t in rej.iter().take(n_inputs / 2) {
        texts.push((*t).clone());
    }
    for t in acc.iter().take(n_inputs - texts.len()) {
        texts.push((*t).clone());
    }
    if texts.is_empty() {
        return Ok(TierResult { json: json!({"ran": false, "note": "no suitable inputs"}), violation: None });
    }
    let plan = build_plan(&texts);
    let n_seeds: u64 = std::env::var("SIM_MIRI_SEEDS").ok().and_then(|s| s.parse().ok()).unwrap_or(8);

    // seed 0 first (also builds the Miri sysroot and the host once)
    let reference = match run_seed(&host_dir, &target, 0, &plan) {
        Ok(r) => r,
        Err(e) => return Ok(TierResult { json: json!({"ran": false, "note": format!("Miri could not run the host: {}", e)}), violation: None }),
    };
    let ref_r = renderings(&reference)?;
    // inside one interpreted process: main thread vs fresh thread
    let mut violation: Option<(String, u64, u64)> = None;
    for (i, a) in ref_r.iter().enumerate() {
        if let Some(b) = ref_r[..i].iter().find(|b| b.0 == a.0) {
            if a.1 != b.1 && violation.is_none() {
                violation = Some((format!("input {} rendered differently on the main thread and on a fresh thread under Miri seed 0: {}", a.0, first_diff(&b.1, &a.1)), 0, 0));
            }
        }
    }
    let seeds: Vec<u64> = (1..n_seeds).collect();
    let next = AtomicUsize::new(0);
    let results: Mutex<Vec<(u64, Result<String, String>)>> = Mutex::new(Vec::new());
    std::thread::scope(|s| {
        for _ in 0..8.min(seeds.len()) {
            s.spawn(|| loop {
                let i = next.fetch_add(1, Ordering::SeqCst);
                if i >= seeds.len() {
                    break;
                }
                let r = run_seed(&host_dir, &target, seeds[i], &plan);
                results.lock().unwrap().push((seeds[i], r));
            });
        }
    });
    let mut results = results.into_inner().unwrap();
    results.sort_by_key(|r| r.0);
    let mut equal = 0;
    let mut failed_runs = 0;
    for (seed, r) in &results {
        match r {
            Ok(log) => {
                let rr = renderings(log)?;
                let mut same = true;
                for (k, a) in rr.iter().enumerate() {
                    let b = &ref_r[k.min(ref_r.len() - 1)];
                    if a != b {
                        same = false;
                        if violation.is_none() {
                            violation = Some((format!("input {} rendered differently under Miri seeds 0 and {}: {}", a.0, seed, first_diff(&b.1, &a.1)), 0, *seed));
                        }
                        break;
                    }
                }
                if same {
                    equal += 1;
                }
            },
            Err(_) => failed_runs += 1,
        }
    }
    // ---- other machines: the same panel, plus short inputs with integer literals at the
    // boundaries of the integer widths, interpreted for a 32-bit and for a big-endian target
    let mut machine_texts: Vec<String> = texts.clone();
    let mut boundary: Vec<&String> = sel.rej.iter().chain(sel.acc.iter()).filter(|t| t.len() < 900 && (t.contains("0x") || t.contains("4294967296") || t.contains("2147483648") || t.contains("18446744073709551615") || t.contains("9223372036854775807"))).collect();
    boundary.sort_by_key(|t| t.len());
    for t in boundary.iter().take(4) {
        machine_texts.push((*t).clone());
    }
    // ... and freshly generated enums over primitive types until eight of them carry such literals
    {
        let mut rng = crate::prng::Rng::new(cfg.seed ^ 0x6d61_6368_696e_65);
        let mut found = 0;
        for _ in 0..4000 {
            if found >= 8 {
                break;
            }
            let t = crate::gen::generate(&mut rng, corpus, crate::gen::Class::W5Enum).render();
            if t.len() < 1200 && (t.contains("0x") || t.contains("4294967296") || t.contains("2147483648") || t.contains("18446744073709551615") || t.contains("9223372036854775807")) && !machine_texts.contains(&t) {
                machine_texts.push(t);
                found += 1;
            }
        }
    }
    let machine_plan = build_alone_plan(&machine_texts);
    // (these three runs share the worker threads of the pair runs below)
    let machines = ["i686-unknown-linux-gnu", "s390x-unknown-linux-gnu"];
    let machine_runs: Mutex<Vec<(usize, Result<String, String>)>> = Mutex::new(Vec::new());
    // ---- free-running pairs under Miri's scheduler
    // the shortest inputs that have member-level instructions naming a counterpart, in copies with fresh type names
    let mut bases: Vec<String> = sel.acc.iter().chain(sel.rej.iter()).filter(|t| t.len() < 400 && t.contains("| ")).cloned().collect();
    bases.sort_by_key(|t| t.len());
    bases.truncate(3);
    if bases.is_empty() {
        bases = texts.iter().take(3).cloned().collect();
    }
    let per_base: usize = std::env::var("SIM_MIRI_PAIR_COPIES").ok().and_then(|s| s.parse().ok()).unwrap_or(4);
    let pair_texts = fresh_name_variants(&bases, per_base);
    let alone_plan = build_alone_plan(&pair_texts);
    let alone_r = match run_seed(&host_dir, &target, 0, &alone_plan) {
        Ok(r) => renderings(&r)?,
        Err(e) => return Ok(TierResult { json: json!({"ran": false, "note": format!("Miri could not run the host: {}", e)}), violation: None }),
    };
    let rates = ["0.01", "0.05", "0.2", "0.5"];
    let n_pair_seeds: u64 = std::env::var("SIM_MIRI_PAIR_SEEDS").ok().and_then(|s| s.parse().ok()).unwrap_or(16);
    let pair_seeds: Vec<u64> = (0..n_pair_seeds).collect();
    let next = AtomicUsize::new(0);
    let pair_results: Mutex<Vec<(u64, &str, String, Result<String, String>)>> = Mutex::new(Vec::new());
    std::thread::scope(|s| {
        for k in 0..3usize {
            let (host_dir, target, machine_plan, machine_runs) = (&host_dir, &target, &machine_plan, &machine_runs);
            s.spawn(move || {
                let r = if k == 0 { run_seed(host_dir, target, 0, machine_plan) } else { run_seed_on(host_dir, target, 0, None, Some(machines[k - 1]), machine_plan) };
                machine_runs.lock().unwrap().push((k, r));
            });
        }
        for _ in 0..12.min(pair_seeds.len()) {
            s.spawn(|| loop {
                let i = next.fetch_add(1, Ordering::SeqCst);
                if i >= pair_seeds.len() {
                    break;
                }
                let rate = rates[i % rates.len()];
                let pair_plan = build_pair_plan(&pair_texts, cfg.seed ^ pair_seeds[i]);
                let r = run_seed_rate(&host_dir, &target, 1000 + pair_seeds[i], Some(rate), &pair_plan);
                pair_results.lock().unwrap().push((1000 + pair_seeds[i], rate, pair_plan, r));
            });
        }
    });
    let mut machines_json = Vec::new();
    let mut machine_violation: Option<(String, String)> = None;
    {
        let mut runs = machine_runs.into_inner().unwrap();
        runs.sort_by_key(|r| r.0);
        if let Some((_, Ok(native))) = runs.first() {
            let native_r = renderings(native)?;
            for (k, r) in runs.iter().skip(1) {
                let m = machines[*k - 1];
                match r {
                    Ok(log) => {
                        let rr = renderings(log)?;
                        let diff = rr.iter().zip(native_r.iter()).find(|(a, b)| a != b);
                        machines_json.push(json!({"target": m, "inputs": machine_texts.len(), "equal_to_x86_64": diff.is_none()}));
                        if let Some((a, b)) = diff {
                            if machine_violation.is_none() {
                                machine_violation = Some((format!("input {} rendered differently on a simulated {} host than on x86_64 (both under Miri, seed 0): {}", a.0, m, first_diff(&b.1, &a.1)), m.to_string()));
                            }
                        }
                    },
                    Err(e) => machines_json.push(json!({"target": m, "ran": false, "note": e.chars().take(200).collect::<String>()})),
                }
            }
        }
    }
    let mut pair_results = pair_results.into_inner().unwrap();
    pair_results.sort_by_key(|r| r.0);
    let mut pair_equal = 0;
    let mut pair_failed = 0;
    let mut pair_violation: Option<(String, u64, String, String)> = None;
    for (seed, rate, pair_plan, r) in &pair_results {
        match r {
            Ok(log) => {
                let rr = renderings(log)?;
                let mut same = true;
                for a in &rr {
                    let Some(b) = alone_r.iter().find(|b| b.0 == a.0) else { continue };
                    if a.1 != b.1 {
                        same = false;
                        if pair_violation.is_none() {
                            pair_violation = Some((format!("input {} rendered differently when two threads expanded concurrently under Miri's scheduler (seed {}, preemption rate {}) than alone (seed 0): {}", a.0, seed, rate, first_diff(&b.1, &a.1)), *seed, rate.to_string(), pair_plan.clone()));
                        }
                        break;
                    }
                }
                if same {
                    pair_equal += 1;
                }
            },
            Err(_) => pair_failed += 1,
        }
    }
    let mut vio_out = None;
    if violation.is_none() {
        if let Some((msg, seed, rate, pair_plan)) = &pair_violation {
            let path = cfg.verif.join("replays").join(format!("C19-{}-miri-pairs.json", cfg.seed));
            let _ = std::fs::create_dir_all(cfg.verif.join("replays"));
            // minimise: the failing pair alone, under several seeds (the schedule of a shorter
            // history is another schedule); kept only if it fails the same way
            let failing_input: Option<u32> = msg.strip_prefix("input ").and_then(|m| m.split(' ').next()).and_then(|x| x.parse().ok());
            let (mut ref_plan_out, mut plan_out, mut seed_out, mut minimised) = (alone_plan.clone(), pair_plan.clone(), *seed, false);
            if let Some(fi) = failing_input {
                if let Some(yline) = pair_plan.lines().find(|l| l.starts_with("Y ") && { let f: Vec<&str> = l.split(' ').collect(); f.len() == 10 && (f[4] == fi.to_string() || f[8] == fi.to_string()) }) {
                    let f: Vec<&str> = yline.split(' ').collect();
                    let ids: Vec<u32> = vec![f[4].parse().unwrap_or(0), f[8].parse().unwrap_or(0)];
                    let mut small = String::new();
                    let mut small_alone = String::new();
                    for l in pair_plan.lines().filter(|l| l.starts_with("I ")) {
                        let id: u32 = l.split(' ').nth(1).and_then(|x| x.parse().ok()).unwrap_or(u32::MAX);
                        if ids.contains(&id) {
                            small.push_str(l);
                            small.push('\n');
                            small_alone.push_str(l);
                            small_alone.push('\n');
                        }
                    }
                    small.push_str("T 1\nT 2\n");
                    small.push_str(yline);
                    small.push('\n');
                    let mut uniq = ids.clone();
                    uniq.dedup();
                    for (k, id) in uniq.iter().enumerate() {
                        small_alone.push_str(&format!("E {} 0 {}\n", k, id));
                    }
                    let found = AtomicUsize::new(usize::MAX);
                    let cand: Vec<u64> = (0..24).map(|k| if k == 0 { *seed } else { 2000 + k }).collect();
                    let next = AtomicUsize::new(0);
                    std::thread::scope(|sc| {
                        for _ in 0..12 {
                            sc.spawn(|| loop {
                                let i = next.fetch_add(1, Ordering::SeqCst);
                                if i >= cand.len() || found.load(Ordering::SeqCst) != usize::MAX {
                                    break;
                                }
                                if let Ok(log) = run_seed_rate(&host_dir, &target, cand[i], Some(rate), &small) {
                                    if let Ok(rr) = renderings(&log) {
                                        if rr.iter().any(|a| alone_r.iter().find(|b| b.0 == a.0).map(|b| b.1 != a.1).unwrap_or(false)) {
                                            found.fetch_min(i, Ordering::SeqCst);
                                        }
                                    }
                                }
                            });
                        }
                    });
                    let fi = found.load(Ordering::SeqCst);
                    if fi != usize::MAX {
                        ref_plan_out = small_alone;
                        plan_out = small;
                        seed_out = cand[fi];
                        minimised = true;
                    }
                }
            }
            let v = json!({"property": "C19", "kind": "miri_tier", "what": msg, "repo": cfg.repo.to_string_lossy(), "reference_plan": ref_plan_out, "plan": plan_out, "seed_a": 0, "seed_b": seed_out, "preemption_rate": rate, "minimised_to_one_pair": minimised});
            std::fs::write(&path, serde_json::to_string_pretty(&v).unwrap()).map_err(|e| e.to_string())?;
            vio_out = Some((msg.clone(), path));
        }
    }
    if vio_out.is_none() && violation.is_none() {
        if let Some((msg, machine)) = &machine_violation {
            let path = cfg.verif.join("replays").join(format!("C19-{}-miri-machine.json", cfg.seed));
            let _ = std::fs::create_dir_all(cfg.verif.join("replays"));
            let v = json!({"property": "C19", "kind": "miri_tier", "what": msg, "repo": cfg.repo.to_string_lossy(), "plan": machine_plan, "machine": machine, "seed_a": 0, "seed_b": 0});
            std::fs::write(&path, serde_json::to_string_pretty(&v).unwrap()).map_err(|e| e.to_string())?;
            vio_out = Some((msg.clone(), path));
        }
    }
    if let Some((msg, sa, sb)) = &violation {
        let path = cfg.verif.join("replays").join(format!("C19-{}-miri.json", cfg.seed));
        let _ = std::fs::create_dir_all(cfg.verif.join("replays"));
        let v = json!({"property": "C19", "kind": "miri_tier", "what": msg, "repo": cfg.repo.to_string_lossy(), "plan": plan, "seed_a": sa, "seed_b": sb});
        std::fs::write(&path, serde_json::to_string_pretty(&v).unwrap()).map_err(|e| e.to_string())?;
        vio_out = Some((msg.clone(), path));
    }
    Ok(TierResult {
        json: json!({"ran": true, "inputs": texts.len(), "expansions_per_seed": texts.len() * 2, "seeds": n_seeds, "runs_equal_to_seed0": equal, "runs_failed_to_execute": failed_runs,
                     "concurrent_pair_runs": pair_results.len(), "concurrent_pair_runs_equal_to_alone": pair_equal, "concurrent_pair_runs_failed_to_execute": pair_failed, "concurrent_pairs_per_run": pair_results.first().map(|r| r.2.lines().filter(|l| l.starts_with("Y ")).count()).unwrap_or(0), "preemption_rates": rates, "other_machines": machines_json,
                     "wall_s": t0.elapsed().as_secs_f64(),
                     "what_varies": "with isolation on, Miri derives getrandom (RandomState keys), all allocation addresses and its thread schedule from -Zmiri-seed; other_machines: the host interpreted for a 32-bit and for a big-endian target"}),
        violation: vio_out,
    })
}

pub fn replay(cfg: &Cfg, v: &Value, path: &Path) -> i32 {
    let host_dir = cfg.build_dir.join(format!("host-{}-plain", Backend::Syn1.tag()));
    let target = cfg.build_dir.join("target-miri");
    let plan = v["plan"].as_str().unwrap_or("").to_string();
    let (sa, sb) = (v["seed_a"].as_u64().unwrap_or(0), v["seed_b"].as_u64().unwrap_or(1));
    if let Some(machine) = v["machine"].as_str() {
        return match (run_seed(&host_dir, &target, 0, &plan), run_seed_on(&host_dir, &target, 0, None, Some(machine), &plan)) {
            (Ok(a), Ok(b)) => {
                let (Ok(ra), Ok(rb)) = (renderings(&a), renderings(&b)) else { return 2 };
                if ra != rb {
                    println!("replay (miri tier, {} host): renderings differ", machine);
                    println!("VIOLATION property=C19 replay={}", path.display());
                    1
                } else {
                    println!("replay (miri tier): no longer reproduces");
                    0
                }
            },
            (Err(e), _) | (_, Err(e)) => {
                eprintln!("harness error: {}", e);
                2
            },
        };
    }
    if let Some(ref_plan) = v["reference_plan"].as_str() {
        let rate = v["preemption_rate"].as_str().unwrap_or("0.01").to_string();
        return match (run_seed(&host_dir, &target, sa, ref_plan), run_seed_rate(&host_dir, &target, sb, Some(&rate), &plan)) {
            (Ok(a), Ok(b)) => {
                let (Ok(ra), Ok(rb)) = (renderings(&a), renderings(&b)) else { return 2 };
                let differs = rb.iter().any(|x| ra.iter().find(|y| y.0 == x.0).map(|y| y.1 != x.1).unwrap_or(false));
                if differs {
                    println!("replay (miri tier, concurrent pairs): renderings differ");
                    println!("VIOLATION property=C19 replay={}", path.display());
                    1
                } else {
                    println!("replay (miri tier): no longer reproduces");
                    0
                }
            },
            (Err(e), _) | (_, Err(e)) => {
                eprintln!("harness error: {}", e);
                2
            },
        };
    }
    match (run_seed(&host_dir, &target, sa, &plan), run_seed(&host_dir, &target, sb, &plan)) {
        (Ok(a), Ok(b)) => {
            let (Ok(ra), Ok(rb)) = (renderings(&a), renderings(&b)) else { return 2 };
            let mut differs = ra != rb;
            for (i, x) in ra.iter().enumerate() {
                if let Some(y) = ra[..i].iter().find(|y| y.0 == x.0) {
                    if x.1 != y.1 {
                        differs = true;
                    }
                }
            }
            if differs {
                println!("replay (miri tier): renderings differ");
                println!("VIOLATION property=C19 replay={}", path.display());
                1
            } else {
                println!("replay (miri tier): no longer reproduces");
                0
            }
        },
        (Err(e), _) | (_, Err(e)) => {
            eprintln!("harness error: {}", e);
            2
        },
    }
}
