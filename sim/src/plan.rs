//! World model: what a simulated build host is, how a world of hosts is planned from one
//! seed, and how a host is executed (a real process behind the libc seams).

use crate::corpus::Corpus;
use crate::gen::{self, Class, CLASSES};
use crate::item::Item;
use crate::prng::Rng;
use std::io::{Read, Write};
use std::path::PathBuf;
use std::process::{Command, Stdio};

pub const F_ENTROPY: u32 = 1;
pub const F_THREAD: u32 = 2;
pub const F_HISTORY: u32 = 4;
pub const F_ENV: u32 = 8;
pub const F_CLOCK: u32 = 16;
pub const F_HEAP: u32 = 32;
pub const F_PID: u32 = 64;
pub const F_ORDER: u32 = 128;
pub const F_CWD: u32 = 256;
pub const F_ARGV: u32 = 512;
pub const F_IDENT: u32 = 1024;
pub const F_FS: u32 = 2048;
pub const F_DISK: u32 = 4096;
pub const F_SPANS: u32 = 8192;
pub const F_CONCURRENT: u32 = 16384;
pub const F_BUILD: u32 = 32768;
pub const ALL_FAULTS: [(u32, &str); 16] = [(F_BUILD, "second_build_of_the_expander"), (F_CONCURRENT, "concurrent_pairs"), (F_SPANS, "token_built_inputs"), (F_DISK, "warm_disk"), (F_IDENT, "identity"), (F_FS, "filesystem"), (F_ENTROPY, "entropy"), (F_THREAD, "thread"), (F_HISTORY, "history"), (F_ENV, "env"), (F_CLOCK, "clock"), (F_HEAP, "heap"), (F_PID, "pid"), (F_ORDER, "order_policy"), (F_CWD, "cwd"), (F_ARGV, "argv")];

pub fn fault_names(mask: u32) -> Vec<&'static str> {
    ALL_FAULTS.iter().filter(|(b, _)| mask & b != 0).map(|(_, n)| *n).collect()
}

#[derive(Clone, Copy, PartialEq, Eq, Debug, PartialOrd, Ord)]
pub enum Backend {
    Syn1,
    Syn2,
}

#[derive(Clone, Copy, PartialEq, Eq, Debug, PartialOrd, Ord)]
pub enum Build {
    Plain,
    Hooked,
    /// the second, independently built copy of the guard-off expander (other directory, other
    /// simulated build machine / time / user, other profile)
    PlainB,
    /// the guard-off expander with every atomic operation compiled as a call into
    /// shim/atomrt.c: scheduling points at atomic operations for concurrent groups
    Atom,
    /// guard-off expander built with BOTH back-end features (only exists for trees in which
    /// that compiles; the pinned tree refuses it with a compile_error!)
    Both,
}

impl Backend {
    pub fn tag(self) -> &'static str {
        match self {
            Backend::Syn1 => "syn1",
            Backend::Syn2 => "syn2",
        }
    }
    pub fn parse(s: &str) -> Option<Backend> {
        match s {
            "syn1" => Some(Backend::Syn1),
            "syn2" => Some(Backend::Syn2),
            _ => None,
        }
    }
}

impl Build {
    pub fn tag(self) -> &'static str {
        match self {
            Build::Plain => "plain",
            Build::Hooked => "hooked",
            Build::PlainB => "plainb",
            Build::Atom => "atom",
            Build::Both => "both",
        }
    }
    pub fn parse(s: &str) -> Option<Build> {
        match s {
            "plain" => Some(Build::Plain),
            "hooked" => Some(Build::Hooked),
            "plainb" => Some(Build::PlainB),
            "atom" => Some(Build::Atom),
            "both" => Some(Build::Both),
            _ => None,
        }
    }
}

#[derive(Clone, Debug, PartialEq, Eq)]
pub enum Event {
    Spawn { tid: u32 },
    Expand { tid: u32, input: u32 },
    /// like Expand, but the input is handed over as tokens without source locations
    ExpandTokens { tid: u32, input: u32 },
    /// two expansions running concurrently on two worker threads under a seeded interleaving
    /// (switch points: the seam's yield points, hooked build; none in the plain build)
    ExpandPair { a_tid: u32, a_input: u32, b_tid: u32, b_input: u32, sched: u64, third: Option<(u32, u32)> },
    Perturb { tid: u32, n: u32, seed: u64 },
    Order { tid: u32, policy: u8, seed: u64 },
    /// attribution only: order policy restricted to one iteration site "<file>:<line>"
    OrderAt { tid: u32, policy: u8, seed: u64, site: String },
    /// selftest only: report a stack and a heap address
    Addr,
}

#[derive(Clone, Debug, PartialEq, Eq)]
pub struct HostCfg {
    pub entropy_seed: u64,
    /// 8-byte words of the entropy stream to skip before the first request
    pub entropy_skip: u64,
    pub env: Vec<(String, String)>,
    pub clock_epoch_ns: i64,
    pub clock_step_ns: i64,
    pub pid: u32,
    pub cwd: String,
    pub argv: Vec<String>,
    /// simulated host name, uid, number of CPUs (None = the real ones)
    pub hostname: Option<String>,
    pub uid: Option<u32>,
    pub ncpu: Option<u32>,
    /// what /proc/self/exe says: the program hosting the expander
    pub exe: Option<String>,
    /// file-system view during expansions: (kind 'R' redirect | 'N' absent, key, content for R)
    pub fs_map: Vec<(char, String, String)>,
    /// simulated disk (where an expansion's writes land): false = cold, wiped before this host
    /// starts; true = warm, as the previous host of the world left it
    pub warm_disk: bool,
    /// run the second, independently built copy of the expander (plain build only)
    pub alt_build: bool,
    pub events: Vec<Event>,
}

impl HostCfg {
    pub fn reference() -> HostCfg {
        HostCfg { entropy_seed: 0, entropy_skip: 0, env: vec![], clock_epoch_ns: 0, clock_step_ns: 1, pid: 1000, cwd: "/".into(), argv: vec![], hostname: None, uid: None, ncpu: None, exe: None, fs_map: vec![], warm_disk: false, alt_build: false, events: vec![] }
    }

    /// which fault dimensions of `self` differ from the reference configuration
    pub fn fired(&self, reference: &HostCfg) -> u32 {
        let mut m = 0;
        if self.entropy_seed != reference.entropy_seed || self.entropy_skip != reference.entropy_skip {
            m |= F_ENTROPY
        }
        if self.env != reference.env {
            m |= F_ENV
        }
        if self.clock_epoch_ns != reference.clock_epoch_ns || self.clock_step_ns != reference.clock_step_ns {
            m |= F_CLOCK
        }
        if self.pid != reference.pid {
            m |= F_PID
        }
        if self.cwd != reference.cwd {
            m |= F_CWD
        }
        if self.argv != reference.argv {
            m |= F_ARGV
        }
        if self.hostname != reference.hostname || self.uid != reference.uid || self.ncpu != reference.ncpu || self.exe != reference.exe {
            m |= F_IDENT
        }
        if self.fs_map != reference.fs_map {
            m |= F_FS
        }
        if self.warm_disk != reference.warm_disk {
            m |= F_DISK
        }
        if self.alt_build != reference.alt_build {
            m |= F_BUILD
        }
        m
    }
}

thread_local! {
    /// which private scratch area (redirect files, simulated disk) the calling thread uses
    pub static SLOT: std::cell::Cell<usize> = const { std::cell::Cell::new(999) };
}

/// the second observation of an ExpandPair event at position p is reported at p + PAIR_B_OFFSET
pub const PAIR_B_OFFSET: usize = 500_000;

pub struct Env {
    pub host_bins: Vec<((Backend, Build), PathBuf)>,
    pub shim: PathBuf,
    pub aslr_off: bool,
    /// where the driver writes the files that SIM_FS_MAP redirects to
    pub fs_dir: PathBuf,
}

impl Env {
    pub fn host_bin(&self, b: Backend, k: Build) -> Option<&PathBuf> {
        self.host_bins.iter().find(|x| x.0 == (b, k)).map(|x| &x.1)
    }
}

#[derive(Clone, Debug, PartialEq, Eq)]
pub struct Probe {
    pub site: String,
    pub op: String,
    pub len: usize,
    pub order_sig: String,
    pub canon_sig: String,
}

#[derive(Clone, Debug, PartialEq, Eq)]
pub struct Obs {
    pub pos: usize,
    pub tid: u32,
    pub input: u32,
    pub verdict: String,
    pub text: String,
    pub spans: String,
    /// the input was handed over as tokens without source locations
    pub token_built: bool,
    pub containers: u64,
    pub probes: Vec<Probe>,
}

#[derive(Clone, Debug, Default, PartialEq, Eq)]
pub struct HostLog {
    pub obs: Vec<Obs>,
    pub counters: [u64; 10],
    pub env_names: String,
    pub shim_flags: u32,
    pub fs_calls: u64,
    pub fs_names: String,
    pub addrs: Vec<String>,
    /// scheduler switches performed in concurrent pairs
    pub switches: u64,
    pub pairs: u64,
    /// scheduling points (heap allocations, blocking waits) offered to the scheduler in concurrent groups
    pub sched_points: u64,
    /// (position, mask) of expansions that touched a seam (clock 1, environment 2, pid 4, disk write 8, file system 16)
    pub touched: Vec<(usize, u32)>,
    pub raw: String,
}

fn esc(s: &str) -> String {
    let mut o = String::with_capacity(s.len() + 8);
    for c in s.chars() {
        match c {
            '\\' => o.push_str("\\\\"),
            '\n' => o.push_str("\\n"),
            '\r' => o.push_str("\\r"),
            ' ' => o.push_str("\\s"),
            c => o.push(c),
        }
    }
    if o.is_empty() {
        o.push_str("\\e");
    }
    o
}

fn unesc(s: &str) -> String {
    let mut o = String::with_capacity(s.len());
    let mut it = s.chars();
    while let Some(c) = it.next() {
        if c == '\\' {
            match it.next() {
                Some('n') => o.push('\n'),
                Some('r') => o.push('\r'),
                Some('s') => o.push(' '),
                Some('e') => {},
                Some('\\') => o.push('\\'),
                Some(x) => o.push(x),
                None => {},
            }
        } else {
            o.push(c)
        }
    }
    o
}

extern "C" {
    fn personality(persona: std::os::raw::c_ulong) -> std::os::raw::c_int;
    fn kill(pid: std::os::raw::c_int, sig: std::os::raw::c_int) -> std::os::raw::c_int;
}
const ADDR_NO_RANDOMIZE: std::os::raw::c_ulong = 0x0040000;

/// Switch address-space randomisation off for every process this driver starts (the
/// personality is inherited across fork/exec; the driver's own layout is already fixed).
/// With ASLR off a host's memory layout is a function of its (seeded) environment block,
/// arguments and history, so address-dependent behaviour replays.
pub fn disable_aslr_for_children() -> bool {
    unsafe {
        let cur = personality(0xffff_ffff);
        if cur == -1 {
            return false;
        }
        personality(cur as std::os::raw::c_ulong | ADDR_NO_RANDOMIZE) != -1
    }
}

#[derive(Debug)]
pub struct HarnessError(pub String);

/// Execute one simulated host: a fresh process with exactly the environment block, clock,
/// pid, entropy stream, working directory and history given by `cfg`.
pub fn run_host(env: &Env, backend: Backend, build: Build, texts: &[(u32, String)], cfg: &HostCfg) -> Result<HostLog, HarnessError> {
    // the alternative build of a host under the second-build fault: the independently built
    // copy, or -- in a tree where both back-end features can be enabled at once -- the copy built
    // with both (cargo unifies features: another crate of a build graph may ask for the other
    // back-end).  Which of the two is a function of the host's configuration.
    let build = if cfg.alt_build && build == Build::Plain {
        let both = env.host_bin(backend, Build::Both).is_some();
        let plainb = env.host_bin(backend, Build::PlainB).is_some();
        let pick_both = both && (!plainb || (cfg.entropy_seed ^ cfg.pid as u64 ^ cfg.events.len() as u64) & 1 == 1);
        if pick_both {
            Build::Both
        } else if plainb {
            Build::PlainB
        } else {
            build
        }
    } else {
        build
    };
    let bin = env.host_bin(backend, build).ok_or_else(|| HarnessError(format!("no host binary for {}/{}", backend.tag(), build.tag())))?;
    let mut plan = String::new();
    // only define the inputs this host uses, in id order
    let mut used: Vec<u32> = cfg.events.iter().filter_map(|e| if let Event::Expand { input, .. } | Event::ExpandTokens { input, .. } = e { Some(*input) } else { None }).collect();
    for e in &cfg.events {
        if let Event::ExpandPair { a_input, b_input, third, .. } = e {
            used.push(*a_input);
            used.push(*b_input);
            if let Some((_, c)) = third {
                used.push(*c);
            }
        }
    }
    used.sort();
    used.dedup();
    for id in &used {
        let t = texts.iter().find(|x| x.0 == *id).ok_or_else(|| HarnessError(format!("input {} undefined", id)))?;
        plan.push_str(&format!("I {} {}\n", id, esc(&t.1)));
    }
    for (pos, e) in cfg.events.iter().enumerate() {
        match e {
            Event::Spawn { tid } => plan.push_str(&format!("T {}\n", tid)),
            Event::Expand { tid, input } => plan.push_str(&format!("E {} {} {}\n", pos, tid, input)),
            Event::ExpandTokens { tid, input } => plan.push_str(&format!("E {} {} {} t\n", pos, tid, input)),
            Event::ExpandPair { a_tid, a_input, b_tid, b_input, sched, third } => match third {
                None => plan.push_str(&format!("X {} 2 {} {} {} {} {} {}\n", sched, pos, a_tid, a_input, pos + PAIR_B_OFFSET, b_tid, b_input)),
                Some((c_tid, c_input)) => plan.push_str(&format!("X {} 3 {} {} {} {} {} {} {} {} {}\n", sched, pos, a_tid, a_input, pos + PAIR_B_OFFSET, b_tid, b_input, pos + 2 * PAIR_B_OFFSET, c_tid, c_input)),
            },
            Event::Perturb { tid, n, seed } => plan.push_str(&format!("P {} {} {}\n", tid, n, seed)),
            Event::Order { tid, policy, seed } => plan.push_str(&format!("O {} {} {}\n", tid, policy, seed)),
            Event::OrderAt { tid, policy, seed, site } => plan.push_str(&format!("O {} {} {} {}\n", tid, policy, seed, site)),
            Event::Addr => plan.push_str("A\n"),
        }
    }

    let mut cmd = Command::new(bin);
    cmd.env_clear();
    // development aid only (tools/coverage.sh): pass selected variables of the driver through
    if let Ok(keep) = std::env::var("SIM_KEEP_ENV") {
        for k in keep.split(',') {
            if let Ok(v) = std::env::var(k) {
                cmd.env(k, v);
            }
        }
    }
    for (k, v) in &cfg.env {
        cmd.env(k, v);
    }
    cmd.env("LD_PRELOAD", &env.shim);
    cmd.env("SIM_ENTROPY_SEED", cfg.entropy_seed.to_string());
    if cfg.entropy_skip != 0 {
        cmd.env("SIM_ENTROPY_SKIP", cfg.entropy_skip.to_string());
    }
    cmd.env("SIM_CLOCK_EPOCH_NS", cfg.clock_epoch_ns.to_string());
    cmd.env("SIM_CLOCK_STEP_NS", cfg.clock_step_ns.to_string());
    cmd.env("SIM_PID", cfg.pid.to_string());
    if let Some(h) = &cfg.hostname {
        cmd.env("SIM_HOSTNAME", h);
    }
    if let Some(u) = cfg.uid {
        cmd.env("SIM_UID", u.to_string());
    }
    if let Some(n) = cfg.ncpu {
        cmd.env("SIM_NCPU", n.to_string());
    }
    if let Some(e) = &cfg.exe {
        cmd.env("SIM_EXE_NAME", e);
    }
    // private scratch area of the calling worker: redirect targets (rewritten for every host)
    // and the simulated disk
    let slot_dir = env.fs_dir.join(format!("s{}", SLOT.with(|s| s.get())));
    let redir = slot_dir.join("redir");
    let _ = std::fs::remove_dir_all(&redir);
    std::fs::create_dir_all(&redir).map_err(|e| HarnessError(format!("create {}: {}", redir.display(), e)))?;
    {
        // the kernel's entropy devices are always answered from the host's seeded stream:
        // a direct read of /dev/urandom must not be a way around the getrandom seam
        let mut map = String::new();
        let mut entries: Vec<(char, String, String)> = cfg.fs_map.clone();
        let mut st = cfg.entropy_seed ^ 0x7572_616e_646f_6d;
        let mut bytes = String::new();
        for _ in 0..64 {
            bytes.push_str(&format!("{:016x}", crate::prng::splitmix64(&mut st)));
        }
        for dev in ["/dev/urandom", "/dev/random"] {
            if !entries.iter().any(|e| e.1 == dev) {
                entries.push(('R', dev.to_string(), bytes.clone()));
            }
        }
        for (kind, key, content) in &entries {
            if *kind == 'R' {
                let name = format!("f-{:016x}", crate::prng::fnv64(content.as_bytes()));
                let path = redir.join(&name);
                std::fs::write(&path, content).map_err(|e| HarnessError(format!("write {}: {}", path.display(), e)))?;
                map.push_str(&format!("R\t{}\t{}\n", key, path.display()));
            } else {
                map.push_str(&format!("N\t{}\t\n", key));
            }
        }
        cmd.env("SIM_FS_MAP", map);
    }
    {
        // the simulated disk of this worker thread: a cold host starts on an empty one, a warm
        // host on whatever the previous host (run by this thread) left behind
        let disk = slot_dir.join("disk");
        if !cfg.warm_disk {
            let _ = std::fs::remove_dir_all(&disk);
        }
        std::fs::create_dir_all(&disk).map_err(|e| HarnessError(format!("create {}: {}", disk.display(), e)))?;
        cmd.env("SIM_DISK_DIR", &disk);
    }
    cmd.arg("--require-shim");
    cmd.args(&cfg.argv);
    cmd.current_dir(&cfg.cwd);
    cmd.stdin(Stdio::piped()).stdout(Stdio::piped()).stderr(Stdio::piped());
    let mut child = cmd.spawn().map_err(|e| HarnessError(format!("spawn {}: {}", bin.display(), e)))?;
    // watchdog (real time, harness side only): an expansion that never returns must end as a
    // harness error, not as a check that hangs
    let (done_tx, done_rx) = std::sync::mpsc::channel::<()>();
    let pid = child.id() as i32;
    let n_events = cfg.events.len() as u64;
    let limit = std::time::Duration::from_secs(120 + n_events / 2);
    let dog = std::thread::spawn(move || {
        if done_rx.recv_timeout(limit).is_err() {
            unsafe {
                kill(pid, 9);
            }
            true
        } else {
            false
        }
    });
    {
        let mut stdin = child.stdin.take().unwrap();
        stdin.write_all(plan.as_bytes()).map_err(|e| HarnessError(format!("write plan: {}", e)))?;
    }
    let mut out = String::new();
    child.stdout.take().unwrap().read_to_string(&mut out).map_err(|e| HarnessError(format!("read log: {}", e)))?;
    let mut err = String::new();
    let _ = child.stderr.take().unwrap().read_to_string(&mut err);
    let st = child.wait().map_err(|e| HarnessError(format!("wait: {}", e)))?;
    let _ = done_tx.send(());
    if dog.join().unwrap_or(false) {
        return Err(HarnessError(format!("host killed by the watchdog after {} s (an expansion did not return)", limit.as_secs())));
    }
    if !st.success() {
        return Err(HarnessError(format!("host exited with {:?}: {}", st, err.trim())));
    }
    let mut log = parse_log(&out)?;
    for o in log.obs.iter_mut() {
        o.token_built = matches!(cfg.events.get(o.pos), Some(Event::ExpandTokens { .. }));
    }
    Ok(log)
}

pub fn parse_log(out: &str) -> Result<HostLog, HarnessError> {
    let mut log = HostLog { raw: out.to_string(), ..Default::default() };
    let mut saw_s = false;
    for line in out.lines() {
        let f: Vec<&str> = line.split(' ').collect();
        match f[0] {
            "R" if f.len() == 7 => {
                log.obs.push(Obs { pos: f[1].parse().map_err(|_| HarnessError("bad R".into()))?, tid: f[2].parse().map_err(|_| HarnessError("bad R".into()))?, input: f[3].parse().map_err(|_| HarnessError("bad R".into()))?, verdict: f[4].to_string(), text: unesc(f[5]), spans: unesc(f[6]), token_built: false, containers: 0, probes: vec![] });
            },
            "B" if f.len() >= 3 => {
                let pos: usize = f[1].parse().map_err(|_| HarnessError("bad B".into()))?;
                let containers: u64 = f[2].parse().map_err(|_| HarnessError("bad B".into()))?;
                if let Some(o) = log.obs.iter_mut().rev().find(|o| o.pos == pos) {
                    o.containers = containers;
                    for p in &f[3..] {
                        let q: Vec<&str> = p.split(':').collect();
                        if q.len() == 6 {
                            o.probes.push(Probe { site: format!("{}:{}", q[0], q[1]), op: q[2].to_string(), len: q[3].parse().unwrap_or(0), order_sig: q[4].to_string(), canon_sig: q[5].to_string() });
                        }
                    }
                }
            },
            "S" if f.len() == 15 => {
                for i in 0..10 {
                    log.counters[i] = f[1 + i].parse().map_err(|_| HarnessError("bad S".into()))?;
                }
                log.env_names = unesc(f[11]);
                log.shim_flags = f[12].parse().map_err(|_| HarnessError("bad S".into()))?;
                log.fs_calls = f[13].parse().map_err(|_| HarnessError("bad S".into()))?;
                log.fs_names = unesc(f[14]);
                saw_s = true;
            },
            "C" if f.len() == 3 => {
                log.touched.push((f[1].parse().map_err(|_| HarnessError("bad C".into()))?, f[2].parse().map_err(|_| HarnessError("bad C".into()))?));
            },
            "A" => log.addrs.push(line.to_string()),
            "K" if f.len() == 3 || f.len() == 4 => {
                log.pairs += 1;
                log.switches += f[2].parse::<u64>().unwrap_or(0);
                // (cumulative for the process)
                if f.len() == 4 {
                    log.sched_points = f[3].parse::<u64>().unwrap_or(0);
                }
            },
            "" => {},
            _ => return Err(HarnessError(format!("unparseable host log line: {:?}", &line[..line.len().min(120)]))),
        }
    }
    if !saw_s {
        return Err(HarnessError("host log has no S line (host died?)".into()));
    }
    Ok(log)
}

// ---------------------------------------------------------------- planning

pub struct World {
    pub seed: u64,
    pub backend: Backend,
    pub build: Build,
    pub faults: u32,
    pub control: bool,
    pub items: Vec<Item>,
    pub texts: Vec<(u32, String)>,
    pub classes: Vec<Class>,
    /// hosts[0] is the reference host
    pub hosts: Vec<HostCfg>,
}

const ENV_NAMES: [&str; 48] = [
    "CARGO", "CARGO_MANIFEST_DIR", "CARGO_PKG_NAME", "CARGO_PKG_VERSION", "CARGO_PKG_AUTHORS", "CARGO_CRATE_NAME", "CARGO_PRIMARY_PACKAGE", "CARGO_CFG_TARGET_OS", "CARGO_ENCODED_RUSTFLAGS", "CARGO_TARGET_DIR", "CARGO_INCREMENTAL", "CARGO_BUILD_JOBS", "OUT_DIR", "PROFILE", "DEBUG", "OPT_LEVEL", "TARGET", "HOST", "NUM_JOBS", "RUSTC", "RUSTFLAGS", "RUST_BACKTRACE", "RUST_LOG", "RUST_LIB_BACKTRACE", "RUSTC_WRAPPER", "RUSTC_BOOTSTRAP", "HOME", "USER", "LOGNAME", "LANG", "LC_ALL", "TZ", "TERM", "NO_COLOR", "CLICOLOR_FORCE", "SOURCE_DATE_EPOCH", "PWD", "TMPDIR", "HOSTNAME", "CI", "GITHUB_ACTIONS", "O2O_DEBUG", "O2O_LOG", "O2O_STRICT",
    "O2O_SEED", "DOCS_RS", "PATH", "SHELL",
];

const ENV_VALUES: [&str; 28] = [
    "1", "0", "true", "false", "full", "debug", "release", "trace", "/tmp/x", "o2o", "0.5.1", "x86_64-unknown-linux-gnu", "wasm32-unknown-unknown", "windows", "linux", "macos", "UTC", "en_US.UTF-8", "tr_TR.UTF-8", "C", "", "always", "never", "2018", "2021", "nightly", "stable", "yes",
];

/// numbers an environment typically carries (terminal sizes, job counts, levels, sizes): what
/// a threshold in the expander would be compared against
const ENV_NUMBERS: [&str; 30] = [
    "1", "2", "3", "4", "8", "16", "24", "25", "32", "40", "43", "50", "64", "72", "79", "80", "81", "90", "100", "120", "128", "132", "160", "200", "255", "256", "512", "1024", "4096", "65535",
];

/// what rustc is typically started with; a proc macro can see its host's command line
const ARGV_POOL: [&str; 26] = [
    "--edition=2015", "--edition=2018", "--edition=2021", "--edition=2024", "--crate-name", "consumer", "--crate-type", "lib", "proc-macro", "bin", "--test", "--cfg", "feature=\"syn2\"", "feature=\"std\"", "-C", "opt-level=3", "debuginfo=2", "--target", "wasm32-unknown-unknown", "--cap-lints", "allow", "--error-format=json", "--color=never", "-Zunpretty=expanded",
    "--release", "-vv",
];

pub fn plan_env(rng: &mut Rng, feedback: &[String], dict: &[String], dict_values: &[String]) -> Vec<(String, String)> {
    let mut env: Vec<(String, String)> = Vec::new();
    // names from the expander's own sources (dictionary): each present with probability 1/2
    for k in dict {
        if rng.chance(1, 2) {
            // (what a value is compared against is written in the sources too)
            let v = if !dict_values.is_empty() && rng.chance(1, 3) { rng.pick(dict_values).clone() } else if rng.chance(1, 4) { "0".to_string() } else if rng.chance(1, 4) { rng.pick(&ENV_NUMBERS).to_string() } else { rng.pick(&ENV_VALUES).to_string() };
            env.push((k.clone(), v));
        }
    }
    let n = rng.range(1, 16);
    for _ in 0..n {
        let k = rng.pick(&ENV_NAMES).to_string();
        if env.iter().any(|e| e.0 == k) {
            continue;
        }
        let v = if rng.chance(1, 3) { format!("{}", rng.next_u64() % 100000) } else { rng.pick(&ENV_VALUES).to_string() };
        env.push((k, v));
    }
    // variables the expander was *observed* to read in earlier worlds are always varied
    for k in feedback {
        if !env.iter().any(|e| &e.0 == k) && rng.chance(3, 4) {
            let v = if !dict_values.is_empty() && rng.chance(1, 3) { rng.pick(dict_values).clone() } else if rng.chance(1, 2) { if rng.chance(1, 2) { rng.pick(&ENV_NUMBERS).to_string() } else { format!("{}", rng.next_u64() % 1000) } } else { rng.pick(&ENV_VALUES).to_string() };
            env.push((k.clone(), v));
        }
    }
    // junk of seeded size: shifts the initial stack
    if rng.chance(1, 2) {
        let len = rng.range(1, 4000);
        env.push(("SIM_JUNK".into(), "j".repeat(len)));
    }
    env
}

const FS_CONTENTS: [&str; 6] = [
    "",
    "\n",
    "# o2o\ndebug = true\nsort = \"none\"\nseed = 7\n",
    "[package]\nname = \"renamed-crate\"\nversion = \"9.9.9\"\n\n[dependencies]\no2o_renamed = { package = \"o2o\", version = \"0.5\" }\n\n[package.metadata.o2o]\nstrict = true\n",
    "{\"version\": 2, \"entries\": [\"Entity\", \"EntityDto\"]}\n",
    "1\n",
];

/// File-system view for one host.  Only paths the expander was *observed* to touch can
/// matter, so the view is built from the feedback set: each such path is, per host, left
/// alone, made absent, or redirected to one of a few seeded contents.
pub fn plan_fs(rng: &mut Rng, fs_feedback: &[String]) -> Vec<(char, String, String)> {
    let mut v = Vec::new();
    for p in fs_feedback {
        if p.starts_with("call:") || p.starts_with("/dev/") || p.starts_with("/proc/") || p.starts_with("/sys/") {
            continue;
        }
        let key = p.rsplit('/').next().unwrap_or(p).to_string();
        if key.is_empty() || v.iter().any(|e: &(char, String, String)| e.1 == key) || v.len() >= 12 {
            continue;
        }
        match rng.below(4) {
            0 => {},
            1 => v.push(('N', key, String::new())),
            _ => {
                let mut c = rng.pick(&FS_CONTENTS).to_string();
                if rng.chance(1, 2) {
                    c.push_str(&format!("stamp = {}\n", rng.next_u64() % 1000));
                }
                v.push(('R', key, c));
            },
        }
    }
    v
}

pub struct PlanOpts {
    pub backend: Option<Backend>,
    pub build: Option<Build>,
    pub hooked_available: bool,
    pub atom_available: bool,
    pub feedback: Vec<String>,
    /// paths the expander was observed to touch during expansions (file-system feedback)
    pub fs_feedback: Vec<String>,
    pub cwds: Vec<String>,
    pub max_inputs: usize,
    /// inputs whose expansion was observed to touch a seam (with the mask of seams), most recent last
    pub seam_pool: Vec<(Item, Class, u32)>,
    /// the quick / thorough ultra-marathon world (65536+ expansions in one process) sits at this index
    pub ultra_index: Option<u64>,
}

/// One process expanding a power-of-two cycle of inputs 65536 + a few times: every input recurs
/// at a distance of exactly 2^16 expansions (16-bit generation counters, sequence numbers).
pub fn plan_ultra_world(ws: u64, corpus: &Corpus, o: &PlanOpts, env: &Env) -> World {
    let mut rng = Rng::new(ws ^ 0x756c747261);
    let backend = o.backend.unwrap_or(if rng.chance(1, 2) { Backend::Syn1 } else { Backend::Syn2 });
    let k = 64usize;
    // candidates are classified by a trial run: only inputs that get *through attribute parsing*
    // (accepted, or rejected by validation) are used, so that "number of expansions" and
    // "number of validations" between two occurrences of an input are the same number
    let mut cand: Vec<(Item, Class)> = Vec::new();
    while cand.len() < 320 {
        let class = CLASSES[rng.below(CLASSES.len() as u64) as usize];
        let it = gen::generate(&mut rng, corpus, class);
        // short inputs: this host performs 65k+ expansions
        if it.render().len() < 700 {
            cand.push((it, class));
        }
    }
    let cand_texts: Vec<(u32, String)> = cand.iter().enumerate().map(|(i, c)| (i as u32, c.0.render())).collect();
    let mut trial = HostCfg::reference();
    trial.events = (0..cand.len() as u32).map(|i| Event::Expand { tid: 0, input: i }).collect();
    let mut items = Vec::new();
    let mut classes = Vec::new();
    if let Ok(log) = run_host(env, backend, Build::Plain, &cand_texts, &trial) {
        for ob in &log.obs {
            let validated = ob.verdict == "OK" || (ob.verdict == "ERR" && ob.text.starts_with("Cannot expand o2o macro"));
            if validated && items.len() < k {
                items.push(cand[ob.input as usize].0.clone());
                classes.push(cand[ob.input as usize].1);
            }
        }
    }
    for c in cand.iter() {
        if items.len() >= k {
            break;
        }
        items.push(c.0.clone());
        classes.push(c.1);
    }
    // the inputs of this world are renamed apart (every type-like identifier gets a per-input
    // suffix): between two occurrences of an input nothing else mentions any of its names
    fn rename_apart(text: &str, tag: usize) -> String {
        const KEEP: [&str; 30] = ["Self", "Some", "None", "Ok", "Err", "Default", "String", "Vec", "Option", "Box", "Cow", "Unit", "T", "U", "V", "N", "Fn", "Into", "From", "Iterator", "Item", "Clone", "Copy", "PartialEq", "Send", "Sized", "BTreeMap", "K", "Result", "TryInto"];
        let b: Vec<char> = text.chars().collect();
        let mut out = String::with_capacity(text.len() + 64);
        let mut i = 0;
        let mut in_str = false;
        while i < b.len() {
            let c = b[i];
            if c == '"' {
                in_str = !in_str;
            }
            if !in_str && (c.is_alphabetic() || c == '_') && (i == 0 || !(b[i - 1].is_alphanumeric() || b[i - 1] == '_' || b[i - 1] == '\'' || b[i - 1] == '#')) {
                let mut j = i;
                while j < b.len() && (b[j].is_alphanumeric() || b[j] == '_') {
                    j += 1;
                }
                let id: String = b[i..j].iter().collect();
                out.push_str(&id);
                if c.is_uppercase() && !KEEP.contains(&id.as_str()) {
                    out.push_str(&format!("U{}", tag));
                }
                i = j;
            } else {
                out.push(c);
                i += 1;
            }
        }
        out
    }
    let texts: Vec<(u32, String)> = items.iter().enumerate().map(|(i, it)| (i as u32, rename_apart(&it.render(), i))).collect();
    // (the editable models are kept in step so that the minimiser shrinks what was executed)
    for (i, it) in items.iter_mut().enumerate() {
        it.raw = Some(texts[i].1.clone());
    }
    let mut reference = HostCfg::reference();
    for i in 0..k {
        reference.events.push(Event::Expand { tid: 0, input: i as u32 });
    }
    // fillers: 8192 different small inputs that share no name with anything above and none with
    // each other (a steady supply of new type paths: tables with a capacity overflow every few
    // hundred expansions); each mentions its first counterpart again after another one
    let n_fill = 8192usize;
    let mut texts = texts;
    for i in 0..n_fill {
        // (1, 2 or 3 new type paths per filler, in no regular pattern: a table's fill level meets
        // every alignment)
        let t = match rng.below(7) {
            4 => format!("#[map(FillSolo{0})]\nstruct Fill{0} {{ #[map(FillSolo{0}| renamed)] x: i32 }}\n", i),
            5 => format!("#[from_owned(FillDto{0})]\n#[owned_into(FillOther{0})]\n#[ref_into(FillThird{0})]\n#[owned_into(FillDto{0})]\nstruct Fill{0} {{ #[map(FillDto{0}| renamed)] #[ref_into(FillThird{0}| third)] x: i32 }}\n", i),
            6 => format!("#[into(FillOther{0})]\n#[from(FillDto{0})]\n#[where_clause(FillOther{0}| T: Copy)]\nstruct Fill{0} {{ #[from(FillDto{0}| a)] #[into(FillOther{0}| b)] x: i32 }}\n", i),
            0 => format!("#[from_owned(FillDto{0})]\n#[owned_into(FillOther{0})]\n#[owned_into(FillDto{0})]\nstruct Fill{0} {{ #[map(FillDto{0}| renamed)] x: i32 }}\n", i),
            1 => format!("#[from_owned(FillDto{0})]\n#[ref_into(FillAlt{0})]\n#[where_clause(FillDto{0}| T: Clone)]\nstruct Fill{0}(#[map(FillDto{0}| 1)] i32, #[from_owned(FillDto{0}| 0)] String);\n", i),
            2 => format!("#[map(FillDto{0})]\n#[map(FillDto{0})]\n#[where_clause(FillNope{0}| T: Clone)]\nstruct Fill{0} {{ x: i32 }}\n", i),
            _ => format!("#[map(FillDto{0})]\n#[from_owned(FillB{0})]\nenum Fill{0} {{ #[map(FillDto{0}| Other)] A, #[ghost(FillB{0}| {{ todo!() }})] B(i32) }}\n", i),
        };
        texts.push(((k + i) as u32, t));
    }
    let mut ultra = HostCfg::reference();
    // every input once, then exactly as many unrelated expansions as it takes for each input
    // to recur at a distance of 2^16 without having been touched in between, then a few laps
    for i in 0..k {
        ultra.events.push(Event::Expand { tid: 0, input: i as u32 });
    }
    for n in 0..(65536 - k) {
        ultra.events.push(Event::Expand { tid: 0, input: (k + n % n_fill) as u32 });
    }
    let laps = rng.range(1, 3);
    for n in 0..(k * laps) {
        ultra.events.push(Event::Expand { tid: 0, input: (n % k) as u32 });
    }
    // the reference host knows the fillers too
    for i in 0..n_fill {
        reference.events.push(Event::Expand { tid: 0, input: (k + i) as u32 });
    }
    World { seed: ws, backend, build: Build::Plain, faults: F_HISTORY, control: false, items, texts, classes, hosts: vec![reference, ultra] }
}

pub fn plan_world(ws: u64, corpus: &Corpus, o: &PlanOpts) -> World {
    let mut rng = Rng::new(ws);
    let backend = o.backend.unwrap_or(if rng.chance(1, 2) { Backend::Syn1 } else { Backend::Syn2 });
    let build = o.build.unwrap_or(if o.hooked_available && rng.chance(1, 3) { Build::Hooked } else { Build::Plain });
    let control = rng.chance(1, 8);

    // swarm: each fault kind is enabled per world with its own probability
    let mut faults = 0;
    if !control {
        for (bit, _) in ALL_FAULTS {
            let p = match bit {
                F_ENTROPY | F_ORDER => 4,
                F_THREAD | F_HISTORY => 3,
                _ => 2,
            };
            if rng.chance(p, 5) {
                faults |= bit;
            }
        }
        if faults == 0 {
            faults = F_ENTROPY | F_ORDER;
        }
    }
    if build == Build::Plain {
        faults &= !F_ORDER;
    }
    // half of the guard-off worlds with concurrent groups run the build whose atomic
    // operations are scheduling points (every host of the world, the reference too)
    let build = if build == Build::Plain && faults & F_CONCURRENT != 0 && o.atom_available && rng.chance(1, 2) { Build::Atom } else { build };

    // swarm: class mix
    let mut weights = [0u64; 7];
    for w in weights.iter_mut() {
        *w = if rng.chance(2, 3) { rng.range(1, 4) as u64 } else { 0 };
    }
    if weights.iter().all(|w| *w == 0) {
        weights = [2, 1, 1, 1, 1, 1, 2];
    }
    let total: u64 = weights.iter().sum();
    // 1 world in 40 is a marathon of several hundred *different* inputs per process: tables
    // that fill up, caches with a capacity, counters that wrap
    let marathon = !control && rng.chance(1, 40);
    let k = if marathon { rng.range(150, 420) } else { rng.range(4, o.max_inputs.max(4)) };
    let mut items = Vec::new();
    let mut classes = Vec::new();
    for _ in 0..k {
        let mut r = rng.below(total);
        let mut ci = 0;
        for (i, w) in weights.iter().enumerate() {
            if r < *w {
                ci = i;
                break;
            }
            r -= *w;
        }
        let class = CLASSES[ci];
        items.push(gen::generate(&mut rng, corpus, class));
        classes.push(class);
    }
    // concurrency between *related* inputs: a shared flag or table goes wrong when two
    // expansions take the same path with different values.  Some inputs get a sibling -- a
    // copy with one small edit -- and concurrent groups prefer (input, its sibling).
    let mut sibling_of: Vec<Option<u32>> = vec![None; items.len()];
    // one concurrent world in three is *about* siblings: every input has one, and every host
    // runs each (input, sibling) group several times under different schedules before anything else
    let sibling_world = faults & F_CONCURRENT != 0 && !marathon && rng.chance(1, 2);
    if faults & F_CONCURRENT != 0 && !marathon {
        for j in 0..items.len().min(if sibling_world { 16 } else { 8 }) {
            if items[j].raw.is_none() && (sibling_world || rng.chance(1, 2)) {
                let sib = gen::sibling(&mut rng, &items[j]);
                if sib.render() != items[j].render() {
                    sibling_of[j] = Some(items.len() as u32);
                    items.push(sib);
                    classes.push(classes[j]);
                    sibling_of.push(None);
                }
            }
        }
    }
    let k = items.len();
    // feedback: inputs that were seen to touch a seam are expanded again, under the faults of
    // those seams, with the variables they read swept over the dictionary of values
    let mut sweep = false;
    if !o.seam_pool.is_empty() && !control && !marathon && rng.chance(1, 2) {
        sweep = true;
        let n = rng.range(1, 4).min(items.len());
        for j in 0..n {
            let (it, cl, mask) = &o.seam_pool[rng.below(o.seam_pool.len() as u64) as usize];
            items[j] = it.clone();
            classes[j] = *cl;
            for (bit, fault) in [(1u32, F_CLOCK), (2, F_ENV), (4, F_PID), (8, F_DISK), (16, F_FS)] {
                if mask & bit != 0 {
                    faults |= fault;
                }
            }
        }
    }
    let texts: Vec<(u32, String)> = items.iter().enumerate().map(|(i, it)| (i as u32, it.render())).collect();

    let mut reference = HostCfg::reference();
    for i in 0..k {
        reference.events.push(Event::Expand { tid: 0, input: i as u32 });
    }
    if faults & F_SPANS != 0 {
        for i in 0..k {
            reference.events.push(Event::ExpandTokens { tid: 0, input: i as u32 });
        }
    }
    let mut hosts = vec![reference.clone()];
    let h = if marathon { 2 } else { rng.range(2, 4) };
    for hi in 0..h {
        // every world keeps one host with no per-host faults besides the reference
        let quiet = hi == 0;
        let mut cfg = HostCfg::reference();
        let f = if quiet { 0 } else if marathon { faults | F_HISTORY } else { faults };
        if f & F_ENTROPY != 0 {
            cfg.entropy_seed = 1 + rng.next_u64() % 0xFFFF_FFFF;
        }
        if f & F_ENV != 0 {
            cfg.env = plan_env(&mut rng, &o.feedback, &corpus.dict_env, &corpus.dict_values);
            if sweep && !corpus.dict_values.is_empty() {
                for name in &o.feedback {
                    let v = if rng.chance(1, 3) { rng.pick(&ENV_NUMBERS).to_string() } else { rng.pick(&corpus.dict_values).clone() };
                    cfg.env.retain(|e| &e.0 != name);
                    cfg.env.push((name.clone(), v));
                }
            }
            // a prefix found in the sources + the name of a type of this world ("O2O_SKIP_" + "ENTITY")
            for p in &corpus.dict_env_prefixes {
                for it in items.iter().take(6) {
                    if rng.chance(1, 3) {
                        cfg.env.push((format!("{}{}", p, it.name.to_uppercase()), "1".to_string()));
                        cfg.env.push((format!("{}{}", p, it.name), "1".to_string()));
                    }
                }
            }
            cfg.env.sort();
            cfg.env.dedup_by(|a, b| a.0 == b.0);
        }
        if f & F_CLOCK != 0 {
            cfg.clock_epoch_ns = (rng.next_u64() % 4_000_000_000_000_000_000) as i64;
            // (a negative step: a wall clock that is set back between two reads)
            cfg.clock_step_ns = *rng.pick(&[1i64, 1000, 1_000_000, 51_000_000, 999_999_937, 0, 61_000_000_000, 3_600_000_000_000, 86_400_000_000_000, -1_000_000_000, -86_400_000_000_000]);
            if cfg.clock_step_ns < 0 && cfg.clock_epoch_ns < 1_000_000_000_000_000_000 {
                cfg.clock_epoch_ns += 1_000_000_000_000_000_000;
            }
        }
        if f & F_PID != 0 {
            cfg.pid = 2 + (rng.next_u64() % 4_000_000) as u32;
        }
        if f & F_CWD != 0 && !o.cwds.is_empty() {
            cfg.cwd = rng.pick(&o.cwds).clone();
        }
        if f & F_ARGV != 0 {
            let n = rng.range(1, 6);
            for _ in 0..n {
                if rng.chance(1, 6) {
                    cfg.argv.push(format!("--sim-arg={}", rng.next_u64() % 1000));
                } else if !corpus.dict_argv.is_empty() && rng.chance(1, 3) {
                    cfg.argv.push(rng.pick(&corpus.dict_argv).clone());
                } else if rng.chance(1, 2) {
                    // a well-formed option as rustc is really given it: a flag and its value as
                    // two arguments or glued together
                    const UNITS: [(&str, &str); 14] = [
                        ("-C", "opt-level=3"), ("-C", "opt-level=0"), ("-C", "opt-level=s"), ("-C", "debuginfo=2"), ("-C", "panic=abort"), ("-C", "debug-assertions=off"), ("--crate-name", "consumer"), ("--crate-type", "lib"), ("--crate-type", "proc-macro"), ("--cfg", "feature=\"syn2\""), ("--target", "wasm32-unknown-unknown"), ("--cap-lints", "allow"), ("--edition", "2018"), ("-Z", "unpretty=expanded"),
                    ];
                    let (a, b) = *rng.pick(&UNITS);
                    match rng.below(3) {
                        0 if a.len() == 2 => cfg.argv.push(format!("{}{}", a, b)),
                        1 if a.starts_with("--") => cfg.argv.push(format!("{}={}", a, b)),
                        _ => {
                            cfg.argv.push(a.to_string());
                            cfg.argv.push(b.to_string());
                        },
                    }
                } else {
                    cfg.argv.push(rng.pick(&ARGV_POOL).to_string());
                }
            }
        }
        if f & F_IDENT != 0 {
            cfg.hostname = Some(format!("build-{}", rng.next_u64() % 100));
            cfg.uid = Some(*rng.pick(&[0u32, 1000, 1001, 65534]));
            cfg.ncpu = Some(*rng.pick(&[1u32, 2, 3, 8, 64]));
            cfg.exe = Some(
                rng.pick(&[
                    "/home/dev/.rustup/toolchains/stable-x86_64-unknown-linux-gnu/bin/rustc",
                    "/home/dev/.cargo/bin/rust-analyzer",
                    "/usr/libexec/rust-analyzer-proc-macro-srv",
                    "/home/dev/.rustup/toolchains/nightly-x86_64-unknown-linux-gnu/libexec/rust-analyzer-proc-macro-srv",
                    "/home/dev/.rustup/toolchains/stable-x86_64-unknown-linux-gnu/bin/clippy-driver",
                    "/home/dev/.rustup/toolchains/stable-x86_64-unknown-linux-gnu/bin/rustdoc",
                    "/home/dev/.cargo/bin/cargo-expand",
                    "/opt/ide/proc-macro-srv",
                    "/home/dev/.rustup/toolchains/nightly-x86_64-unknown-linux-gnu/bin/miri",
                    "/tmp/x/target/debug/deps/trybuild001-0123456789abcdef",
                ])
                .to_string(),
            );
        }
        if f & F_FS != 0 {
            cfg.fs_map = plan_fs(&mut rng, &o.fs_feedback);
        }
        if f & F_DISK != 0 {
            cfg.warm_disk = rng.chance(2, 3);
        }
        if f & F_BUILD != 0 && build == Build::Plain {
            cfg.alt_build = rng.chance(2, 3);
        }
        // history
        let nthreads = if f & F_THREAD != 0 { rng.range(2, 4) } else { 1 };
        let mut order: Vec<u32> = (0..k as u32).collect();
        if f & F_HISTORY != 0 {
            // 1 in 12 such hosts runs a marathon: hundreds of expansions in one process
            // (counter wrap-arounds, caches that fill up or expire)
            let extra = if !marathon && rng.chance(1, 12) { rng.range(260, 700) } else { rng.range(0, k / 2 + 1) };
            // (a history of hundreds of events repeats the *cheap* inputs: an input that takes a
            // fifth of a second -- a 260-level nest -- sixty times over would cost more wall time
            // than the rest of its batch together; every input is still expanded once in it)
            let cheap: Vec<u32> = (0..k as u32).filter(|i| texts[*i as usize].1.len() <= 2500).collect();
            for _ in 0..extra {
                if extra >= 260 && !cheap.is_empty() {
                    order.push(cheap[rng.below(cheap.len() as u64) as usize]);
                } else {
                    order.push(rng.below(k as u64) as u32);
                }
            }
            rng.shuffle(&mut order);
        }
        let mut events: Vec<Event> = Vec::new();
        let mut spawned = vec![false; nthreads];
        spawned[0] = true;
        if f & F_ORDER != 0 {
            let policy = rng.range(0, 4) as u8;
            let seed = if policy == 0 || rng.chance(1, 2) { 1 + rng.next_u64() % 0xFFFF } else { 0 };
            // set for every thread when it first appears (below)
            for t in 0..nthreads {
                if t == 0 {
                    events.push(Event::Order { tid: 0, policy, seed });
                }
            }
            for id in &order {
                let tid = rng.below(nthreads as u64) as u32;
                if !spawned[tid as usize] {
                    spawned[tid as usize] = true;
                    events.push(Event::Spawn { tid });
                    events.push(Event::Order { tid, policy, seed });
                }
                if f & F_HEAP != 0 && rng.chance(1, 3) {
                    events.push(Event::Perturb { tid, n: rng.range(1, 300) as u32, seed: rng.next_u64() });
                }
                if f & F_SPANS != 0 && rng.chance(1, 3) {
                    events.push(Event::ExpandTokens { tid, input: *id });
                } else {
                    events.push(Event::Expand { tid, input: *id });
                }
            }
        } else {
            for id in &order {
                let tid = if f & F_THREAD != 0 {
                    // bias to non-main threads: fresh keys, fresh thread-local state
                    if rng.chance(1, 4) { 0 } else { rng.range(1, nthreads - 1) as u32 }
                } else {
                    0
                };
                if !spawned[tid as usize] {
                    spawned[tid as usize] = true;
                    events.push(Event::Spawn { tid });
                }
                if f & F_HEAP != 0 && rng.chance(1, 3) {
                    events.push(Event::Perturb { tid, n: rng.range(1, 300) as u32, seed: rng.next_u64() });
                }
                if f & F_SPANS != 0 && rng.chance(1, 3) {
                    events.push(Event::ExpandTokens { tid, input: *id });
                } else {
                    events.push(Event::Expand { tid, input: *id });
                }
            }
        }
        if f & F_CONCURRENT != 0 {
            // pairs need two worker threads
            let mut have: Vec<u32> = events.iter().filter_map(|e| if let Event::Spawn { tid } = e { Some(*tid) } else { None }).collect();
            let mut prefix: Vec<Event> = Vec::new();
            let mut next_tid = 1u32;
            while have.len() < 3 {
                while have.contains(&next_tid) {
                    next_tid += 1;
                }
                prefix.push(Event::Spawn { tid: next_tid });
                have.push(next_tid);
            }
            // order policy of the new threads follows thread 0's
            if let Some(Event::Order { policy, seed, .. }) = events.iter().find(|e| matches!(e, Event::Order { tid: 0, .. })).cloned() {
                for e in prefix.clone() {
                    if let Event::Spawn { tid } = e {
                        prefix.push(Event::Order { tid, policy, seed });
                    }
                }
            }
            let mut out: Vec<Event> = Vec::new();
            let mut i = 0;
            // all Spawn events first, so that a pair never names a thread that does not exist yet
            let (spawns, rest): (Vec<Event>, Vec<Event>) = events.into_iter().partition(|e| matches!(e, Event::Spawn { .. }));
            let mut order_events: Vec<Event> = Vec::new();
            let mut body: Vec<Event> = Vec::new();
            for e in rest {
                if matches!(e, Event::Order { .. }) {
                    order_events.push(e)
                } else {
                    body.push(e)
                }
            }
            out.extend(spawns);
            out.extend(prefix);
            out.extend(order_events);
            if sibling_world {
                let reps = rng.range(3, 6);
                for (a, sb) in sibling_of.iter().enumerate() {
                    let Some(sb) = sb else { continue };
                    for _ in 0..reps {
                        let ta = have[rng.below(have.len() as u64) as usize];
                        let tb = *have.iter().find(|t| **t != ta).unwrap();
                        let (x, y) = if rng.chance(1, 2) { (a as u32, *sb) } else { (*sb, a as u32) };
                        out.push(Event::ExpandPair { a_tid: ta, a_input: x, b_tid: tb, b_input: y, sched: rng.next_u64() >> 1, third: None });
                    }
                }
            }
            while i < body.len() {
                if i + 1 < body.len() && rng.chance(1, 3) {
                    if let (Event::Expand { input: a, .. }, Event::Expand { input: b0, .. }) = (&body[i], &body[i + 1]) {
                        // one pair in four expands the *same* input twice at once (an IDE
                        // re-expanding an item while the previous expansion is still running)
                        // ... and an input that has a sibling is mostly paired with it
                        let sib = sibling_of.get(*a as usize).copied().flatten();
                        let b = match &sib {
                            Some(sb) if rng.chance(2, 3) => sb,
                            _ => if rng.chance(1, 4) { a } else { b0 },
                        };
                        let ta = have[rng.below(have.len() as u64) as usize];
                        let mut tb = have[rng.below(have.len() as u64) as usize];
                        if tb == ta {
                            tb = *have.iter().find(|t| **t != ta).unwrap();
                        }
                        // one group in five has a third member (taken from the next expansion, or the same input again)
                        let mut third = None;
                        let mut consumed = 2;
                        if rng.chance(1, 5) {
                            if let Some(tc) = have.iter().find(|t| **t != ta && **t != tb) {
                                let c = match body.get(i + 2) {
                                    Some(Event::Expand { input, .. }) if rng.chance(2, 3) => {
                                        consumed = 3;
                                        *input
                                    },
                                    _ => *a,
                                };
                                third = Some((*tc, c));
                            }
                        }
                        out.push(Event::ExpandPair { a_tid: ta, a_input: *a, b_tid: tb, b_input: *b, sched: rng.next_u64() >> 1, third });
                        i += consumed;
                        continue;
                    }
                }
                out.push(body[i].clone());
                i += 1;
            }
            events = out;
        }
        cfg.events = events;
        hosts.push(cfg);
    }
    World { seed: ws, backend, build, faults, control, items, texts, classes, hosts }
}
