//! Workload class W6: every `#[derive(o2o)]` item of `o2o-tests/tests/*.rs` and every
//! `quote! { ... }` derive input of `o2o-impl/src/tests.rs`, read from the working tree of
//! the repository under test at run time.  Directory listings are sorted: the corpus order
//! must not depend on the file system.

use crate::item::{from_derive_input, Item};
use proc_macro2::{Delimiter, TokenStream, TokenTree};
use quote::ToTokens;
use std::path::Path;
use syn::visit::Visit;

struct Collector {
    items: Vec<Item>,
    origin: String,
}

fn derives_o2o(attrs: &[syn::Attribute]) -> bool {
    attrs.iter().any(|a| {
        a.path().is_ident("derive") && {
            let mut found = false;
            let _ = a.parse_nested_meta(|m| {
                if m.path.segments.last().map(|s| s.ident == "o2o").unwrap_or(false) {
                    found = true;
                }
                Ok(())
            });
            found
        }
    })
}

impl<'ast> Visit<'ast> for Collector {
    fn visit_item_struct(&mut self, i: &'ast syn::ItemStruct) {
        if derives_o2o(&i.attrs) {
            if let Ok(di) = syn::parse2::<syn::DeriveInput>(i.to_token_stream()) {
                if let Some(it) = from_derive_input(&di, &format!("{}#{}", self.origin, self.items.len())) {
                    self.items.push(it)
                }
            }
        }
    }
    fn visit_item_enum(&mut self, i: &'ast syn::ItemEnum) {
        if derives_o2o(&i.attrs) {
            if let Ok(di) = syn::parse2::<syn::DeriveInput>(i.to_token_stream()) {
                if let Some(it) = from_derive_input(&di, &format!("{}#{}", self.origin, self.items.len())) {
                    self.items.push(it)
                }
            }
        }
    }
}

fn collect_quotes(ts: TokenStream, out: &mut Vec<TokenStream>) {
    let v: Vec<TokenTree> = ts.into_iter().collect();
    let mut i = 0;
    while i < v.len() {
        if let TokenTree::Ident(id) = &v[i] {
            if id == "quote" && i + 2 < v.len() {
                if let (TokenTree::Punct(p), TokenTree::Group(g)) = (&v[i + 1], &v[i + 2]) {
                    if p.as_char() == '!' && g.delimiter() == Delimiter::Brace {
                        out.push(g.stream());
                        i += 3;
                        continue;
                    }
                }
            }
        }
        if let TokenTree::Group(g) = &v[i] {
            collect_quotes(g.stream(), out);
        }
        i += 1;
    }
}

/// identifier-like members of `dict_values` of the first corpus loaded by this process: the
/// generators that have no corpus argument use them as type names
pub static TYPE_WORDS: std::sync::OnceLock<Vec<String>> = std::sync::OnceLock::new();

pub struct Corpus {
    pub items: Vec<Item>,
    pub files: usize,
    pub from_tests_dir: usize,
    pub from_unit_tests: usize,
    pub from_docs: usize,
    /// names found in string literals of the expander's own sources that look like
    /// environment variables (as written, and combined with prefix-like literals such as "O2O_")
    pub dict_env: Vec<String>,
    /// string literals that look like command-line flags
    pub dict_argv: Vec<String>,
    /// prefix-like literals ("O2O_"): combined with the upper-cased type names of a world's inputs
    pub dict_env_prefixes: Vec<String>,
    /// identifier-like string literals of the sources that are NOT part of the DSL this
    /// generator knows: keywords a change may have added (instructions, parameters)
    pub dict_keywords: Vec<String>,
    /// lifetime names written anywhere in the expander's sources (`'o2o`): names an input may use too
    pub dict_lifetimes: Vec<String>,
    /// identifiers written inside the expander's `quote!`/`parse_quote!` templates (`value`, `other`,
    /// `obj`, ...): names of generated bindings, which an input's fields and parameters may share
    pub dict_idents: Vec<String>,
    /// short string literals of the sources that are not DSL keywords ("16", "32", "usize"):
    /// what the expander may compare the *value* of a variable, or a type, against
    pub dict_values: Vec<String>,
}

/// A dictionary in the fuzzing sense, taken from the working tree under test: whatever the
/// expander compares its surroundings against is written somewhere in its sources.
fn source_dictionary(repo: &Path) -> (Vec<String>, Vec<String>, Vec<String>, Vec<String>, Vec<String>, Vec<String>, Vec<String>) {
    let mut lits: Vec<String> = Vec::new();
    let mut lifetimes: Vec<String> = Vec::new();
    let mut qidents: Vec<String> = Vec::new();
    fn walk_names(ts: TokenStream, in_quote: bool, lts: &mut Vec<String>, ids: &mut Vec<String>) {
        let v: Vec<TokenTree> = ts.into_iter().collect();
        for i in 0..v.len() {
            match &v[i] {
                TokenTree::Punct(p) if p.as_char() == '\'' => {
                    if let Some(TokenTree::Ident(id)) = v.get(i + 1) {
                        lts.push(format!("'{}", id));
                    }
                },
                TokenTree::Ident(id) if in_quote => {
                    // `#name` is an interpolation, not a name of the template
                    let interpolated = i > 0 && matches!(&v[i - 1], TokenTree::Punct(p) if p.as_char() == '#');
                    if !interpolated {
                        ids.push(id.to_string());
                    }
                },
                TokenTree::Group(g) => {
                    let opens_quote = i >= 2 && matches!(&v[i - 1], TokenTree::Punct(p) if p.as_char() == '!') && matches!(&v[i - 2], TokenTree::Ident(id) if id == "quote" || id == "parse_quote" || id == "quote_spanned");
                    walk_names(g.stream(), in_quote || opens_quote, lts, ids);
                },
                _ => {},
            }
        }
    }
    fn walk(ts: TokenStream, out: &mut Vec<String>) {
        for t in ts {
            match t {
                TokenTree::Literal(l) => {
                    let r = l.to_string();
                    if r.len() >= 3 && r.starts_with('"') && r.ends_with('"') {
                        out.push(r[1..r.len() - 1].to_string());
                    }
                },
                TokenTree::Group(g) => walk(g.stream(), out),
                _ => {},
            }
        }
    }
    let mut files: Vec<std::path::PathBuf> = Vec::new();
    for d in ["o2o-impl/src", "o2o-macros/src", "src"] {
        if let Ok(rd) = std::fs::read_dir(repo.join(d)) {
            files.extend(rd.filter_map(|e| e.ok()).map(|e| e.path()).filter(|p| p.extension().map(|x| x == "rs").unwrap_or(false)));
        }
    }
    files.sort();
    for f in files {
        // the unit tests and the verification seam are not the expander
        let name = f.file_name().unwrap().to_string_lossy().to_string();
        if name == "tests.rs" || name == "verif_seam.rs" {
            continue;
        }
        if let Ok(src) = std::fs::read_to_string(&f) {
            // lifetime-shaped words anywhere in the text (tokens, string literals, comments)
            let b = src.as_bytes();
            let mut i = 0;
            while i + 1 < b.len() {
                if b[i] == b'\'' && (b[i + 1].is_ascii_lowercase() || b[i + 1] == b'_') && (i == 0 || !(b[i - 1].is_ascii_alphanumeric() || b[i - 1] == b'_')) {
                    let mut j = i + 1;
                    while j < b.len() && (b[j].is_ascii_alphanumeric() || b[j] == b'_') {
                        j += 1;
                    }
                    if j >= b.len() || b[j] != b'\'' {
                        let w = &src[i..j];
                        lifetimes.push(w.to_string());
                        let t = w.trim_end_matches('_');
                        if t.len() > 1 {
                            lifetimes.push(t.to_string());
                        }
                    }
                    i = j;
                } else {
                    i += 1;
                }
            }
            if let Ok(ts) = src.parse::<TokenStream>() {
                walk(ts.clone(), &mut lits);
                walk_names(ts, false, &mut lifetimes, &mut qidents);
            }
        }
    }
    lits.sort();
    lits.dedup();
    let is_caps = |s: &str| s.len() >= 3 && s.chars().next().map(|c| c.is_ascii_uppercase()).unwrap_or(false) && s.chars().all(|c| c.is_ascii_uppercase() || c.is_ascii_digit() || c == '_');
    let caps: Vec<&String> = lits.iter().filter(|s| is_caps(s)).collect();
    let prefixes: Vec<&String> = caps.iter().copied().filter(|s| s.ends_with('_')).collect();
    let mut env: Vec<String> = Vec::new();
    for c in &caps {
        if !c.ends_with('_') {
            env.push((*c).clone());
            for p in &prefixes {
                env.push(format!("{}{}", p, c));
            }
        }
    }
    // ... and a prefix with an *upper-cased* identifier-like literal ("O2O_" + "allow_unknown"):
    // names that exist only at run time, in code that enumerates the environment
    for p in &prefixes {
        for l in lits.iter().filter(|l| l.len() >= 3 && l.len() <= 24 && l.chars().all(|c| c.is_ascii_lowercase() || c.is_ascii_digit() || c == '_') && l.chars().next().map(|c| c.is_ascii_lowercase()).unwrap_or(false)) {
            env.push(format!("{}{}", p, l.to_uppercase()));
        }
    }
    env.sort();
    env.dedup();
    env.truncate(192);
    let mut argv: Vec<String> = lits.iter().filter(|s| s.starts_with("--") && s.len() > 3 && !s.contains(' ')).cloned().collect();
    argv.truncate(32);
    let mut pre: Vec<String> = prefixes.iter().map(|s| (*s).clone()).collect();
    pre.truncate(8);
    // snake_case words the generator has no rule for
    const KNOWN: [&str; 64] = [
        "owned_into", "ref_into", "into", "from_owned", "from_ref", "from", "map_owned", "map_ref", "map", "owned_into_existing", "ref_into_existing", "into_existing", "owned_try_into", "ref_try_into", "try_into", "try_from_owned", "try_from_ref", "try_from", "try_map_owned", "try_map_ref", "try_map",
        "owned_try_into_existing", "ref_try_into_existing", "try_into_existing", "ghosts", "ghosts_ref", "ghosts_owned", "ghost", "ghost_ref", "ghost_owned", "child_parents", "where_clause", "children", "child", "parent", "as_type", "literal", "pattern", "repeat", "skip_repeat", "stop_repeat", "type_hint", "allow_unknown", "vars", "update",
        "quick_return", "default_case", "attribute", "impl_attribute", "inner_attribute", "permeate", "doc", "o2o", "value", "self", "other", "obj", "syn", "syn2", "Unit", "unknown", "none", "true", "false",
    ];
    let mut kw: Vec<String> = lits
        .iter()
        .filter(|s| s.len() >= 3 && s.len() <= 40 && s.chars().next().map(|c| c.is_ascii_lowercase()).unwrap_or(false) && s.chars().all(|c| c.is_ascii_lowercase() || c.is_ascii_digit() || c == '_') && !KNOWN.contains(&s.as_str()))
        .cloned()
        .collect();
    kw.truncate(24);
    lifetimes.sort();
    lifetimes.dedup();
    lifetimes.retain(|l| l != "'static" && l != "'_" && l != "'a" && l != "'b");
    lifetimes.truncate(16);
    const RUST_KW: [&str; 40] = [
        "as", "break", "const", "continue", "crate", "else", "enum", "extern", "false", "fn", "for", "if", "impl", "in", "let", "loop", "match", "mod", "move", "mut", "pub", "ref", "return", "self", "Self", "static", "struct", "super", "trait", "true", "type", "unsafe", "use", "where", "while", "async", "await", "dyn", "try",
        "macro_rules",
    ];
    qidents.sort();
    qidents.dedup();
    qidents.retain(|s| !RUST_KW.contains(&s.as_str()) && s.len() >= 2 && s.chars().next().map(|c| c.is_ascii_lowercase() || c == '_').unwrap_or(false));
    qidents.truncate(48);
    let mut values: Vec<String> = lits
        .iter()
        .filter(|s| !s.is_empty() && s.len() <= 16 && !s.contains(char::is_whitespace) && !s.contains('{') && !s.contains('\\') && !KNOWN.contains(&s.as_str()) && !is_caps(s) && !s.starts_with("--"))
        .cloned()
        .collect();
    values.truncate(48);
    (env, argv, pre, kw, lifetimes, qidents, values)
}

pub fn load(repo: &Path) -> Corpus {
    let mut items = Vec::new();
    let mut files = 0;
    let dir = repo.join("o2o-tests/tests");
    let mut names: Vec<_> = match std::fs::read_dir(&dir) {
        Ok(rd) => rd.filter_map(|e| e.ok()).map(|e| e.path()).filter(|p| p.extension().map(|x| x == "rs").unwrap_or(false)).collect(),
        Err(_) => vec![],
    };
    names.sort();
    for p in &names {
        let Ok(src) = std::fs::read_to_string(p) else { continue };
        let Ok(file) = syn::parse_file(&src) else { continue };
        files += 1;
        let mut c = Collector { items: Vec::new(), origin: format!("W6:{}", p.file_name().unwrap().to_string_lossy()) };
        c.visit_file(&file);
        items.extend(c.items);
    }
    let from_tests_dir = items.len();

    let unit = repo.join("o2o-impl/src/tests.rs");
    if let Ok(src) = std::fs::read_to_string(&unit) {
        if let Ok(ts) = src.parse::<TokenStream>() {
            files += 1;
            let mut qs = Vec::new();
            collect_quotes(ts, &mut qs);
            for (n, q) in qs.into_iter().enumerate() {
                if let Ok(di) = syn::parse2::<syn::DeriveInput>(q) {
                    if let Some(it) = from_derive_input(&di, &format!("W6:tests.rs#{}", n)) {
                        items.push(it)
                    }
                }
            }
        }
    }
    let from_unit_tests = items.len() - from_tests_dir;

    // the documentation's examples: fenced code blocks of README.md and of the doc comments
    let mut from_docs = 0;
    for (rel, strip) in [("README.md", ""), ("src/lib.rs", "//!"), ("o2o-macros/src/lib.rs", "///")] {
        let Ok(src) = std::fs::read_to_string(repo.join(rel)) else { continue };
        files += 1;
        let mut block: Option<String> = None;
        let mut n = 0;
        for line in src.lines() {
            let line = if strip.is_empty() { line } else { line.trim_start().strip_prefix(strip).unwrap_or(line) };
            let line = line.strip_prefix(' ').unwrap_or(line);
            if line.trim_start().starts_with("```") {
                match block.take() {
                    None => block = Some(String::new()),
                    Some(code) => {
                        if let Ok(file) = syn::parse_file(&code) {
                            let mut c = Collector { items: Vec::new(), origin: format!("W6:{}@block{}", rel, n) };
                            c.visit_file(&file);
                            from_docs += c.items.len();
                            items.extend(c.items);
                        }
                        n += 1;
                    },
                }
            } else if let Some(b) = block.as_mut() {
                // rustdoc's hidden lines
                let l = line.strip_prefix("# ").unwrap_or(line);
                b.push_str(l);
                b.push('\n');
            }
        }
    }
    let (dict_env, dict_argv, dict_env_prefixes, dict_keywords, dict_lifetimes, dict_idents, dict_values) = source_dictionary(repo);
    let _ = TYPE_WORDS.set(dict_values.iter().filter(|s| s.chars().all(|c| c.is_ascii_alphanumeric() || c == '_') && s.chars().next().map(|c| c.is_ascii_alphabetic()).unwrap_or(false)).cloned().collect());
    Corpus { items, files, from_tests_dir, from_unit_tests, from_docs, dict_env, dict_argv, dict_env_prefixes, dict_keywords, dict_lifetimes, dict_idents, dict_values }
}
