//! Minimisation of a failing world (DESIGN.md 3.7): fewer fault kinds, shorter histories,
//! smaller input -- while a divergence on the same channel persists.  Every judgement is a
//! fresh pair of host processes, so what is written to the replay file is exactly what
//! `--replay` will execute.

use crate::item::Item;
use crate::oracle::{first_divergence, self_divergence, Divergence};
use crate::plan::{run_host, Backend, Build, Env, Event, HarnessError, HostCfg, F_ARGV, F_CLOCK, F_CWD, F_ENTROPY, F_ENV, F_HEAP, F_HISTORY, F_ORDER, F_PID, F_THREAD};

#[derive(Clone)]
pub struct MiniWorld {
    pub backend: Backend,
    pub build: Build,
    pub texts: Vec<(u32, String)>,
    pub reference: HostCfg,
    pub bad: HostCfg,
}

pub struct Judge<'a> {
    pub env: &'a Env,
    pub runs: usize,
    pub budget: usize,
}

impl<'a> Judge<'a> {
    pub fn fails(&mut self, mw: &MiniWorld, channel: &str) -> Result<Option<Divergence>, HarnessError> {
        self.runs += 1;
        let r = run_host(self.env, mw.backend, mw.build, &mw.texts, &mw.reference)?;
        let b = run_host(self.env, mw.backend, mw.build, &mw.texts, &mw.bad)?;
        let d = first_divergence(&r, &b, 1).or_else(|| self_divergence(&b, 1)).or_else(|| self_divergence(&r, 0));
        Ok(d.filter(|d| d.channel == channel))
    }

    fn left(&self) -> bool {
        self.runs < self.budget
    }
}

/// ExpandPair events turned into two sequential expansions (all of them, or only the k-th)
fn unpair(events: &[Event], only: Option<usize>) -> Vec<Event> {
    let mut out = Vec::new();
    let mut k = 0;
    for e in events {
        match e {
            Event::ExpandPair { a_tid, a_input, b_tid, b_input, third, .. } if only.map(|o| o == k).unwrap_or(true) => {
                out.push(Event::Expand { tid: *a_tid, input: *a_input });
                out.push(Event::Expand { tid: *b_tid, input: *b_input });
                if let Some((c_tid, c_input)) = third {
                    out.push(Event::Expand { tid: *c_tid, input: *c_input });
                }
                k += 1;
            },
            Event::ExpandPair { .. } => {
                out.push(e.clone());
                k += 1;
            },
            _ => out.push(e.clone()),
        }
    }
    out
}

/// every thread an event names has been spawned (or is the main thread)
fn threads_ok(events: &[Event]) -> bool {
    let spawned = |t: u32| t == 0 || events.iter().any(|s| matches!(s, Event::Spawn { tid } if *tid == t));
    events.iter().all(|e| match e {
        Event::Expand { tid, .. } | Event::ExpandTokens { tid, .. } | Event::Perturb { tid, .. } | Event::Order { tid, .. } | Event::OrderAt { tid, .. } => spawned(*tid),
        Event::ExpandPair { a_tid, b_tid, third, .. } => *a_tid != 0 && *b_tid != 0 && spawned(*a_tid) && spawned(*b_tid) && third.map(|t| t.0 != 0 && spawned(t.0)).unwrap_or(true),
        _ => true,
    })
}

fn has_perturb(h: &HostCfg) -> bool {
    h.events.iter().any(|e| matches!(e, Event::Perturb { .. }))
}
fn has_threads(h: &HostCfg) -> bool {
    h.events.iter().any(|e| matches!(e, Event::Spawn { .. }))
}
fn has_order(h: &HostCfg) -> bool {
    h.events.iter().any(|e| matches!(e, Event::Order { .. }))
}

/// fault dimensions in which `bad` still differs from `reference`
pub fn fault_mask(mw: &MiniWorld, target: u32) -> u32 {
    let mut m = mw.bad.fired(&mw.reference);
    if has_perturb(&mw.bad) {
        m |= F_HEAP
    }
    if has_threads(&mw.bad) {
        m |= F_THREAD
    }
    if has_order(&mw.bad) {
        m |= F_ORDER
    }
    if mw.bad.events.iter().any(|e| matches!(e, Event::ExpandPair { .. })) {
        m |= crate::plan::F_CONCURRENT
    }
    if mw.bad.events.iter().any(|e| matches!(e, Event::ExpandTokens { .. })) {
        m |= crate::plan::F_SPANS
    }
    // history: anything before the (last) expansion of the target besides Order/Spawn
    // history: the number of expansions before the target differs between the two hosts
    let before = |h: &HostCfg, first: bool| -> Option<usize> {
        let is_t = |e: &Event| matches!(e, Event::Expand { input, .. } | Event::ExpandTokens { input, .. } if *input == target);
        let p = if first { h.events.iter().position(is_t) } else { h.events.iter().rposition(is_t) };
        p.map(|p| h.events[..p].iter().filter(|e| matches!(e, Event::Expand { .. } | Event::ExpandTokens { .. })).count())
    };
    match (before(&mw.reference, true), before(&mw.bad, false)) {
        (Some(a), Some(b)) if a != b => m |= F_HISTORY,
        (None, Some(b)) if b > 0 => m |= F_HISTORY,
        _ => {},
    }
    m
}

/// A host that expands `target` once on each of `n` fresh threads: one process, n different
/// RandomState keys.  Used to re-judge shrunk inputs so that shrinking does not stop at the
/// first unlucky draw.
fn panel_host(base: &HostCfg, target: u32, n: u32, token_built: bool) -> HostCfg {
    let mut h = base.clone();
    h.events.retain(|e| matches!(e, Event::Order { tid: 0, .. }));
    let order0 = h.events.first().cloned();
    for t in 1..=n {
        h.events.push(Event::Spawn { tid: t });
        if let Some(Event::Order { policy, seed, .. }) = order0 {
            h.events.push(Event::Order { tid: t, policy, seed });
        }
        h.events.push(if token_built { Event::ExpandTokens { tid: t, input: target } } else { Event::Expand { tid: t, input: target } });
    }
    h
}

pub struct Minimised {
    pub mw: MiniWorld,
    pub divergence: Divergence,
    pub item: Option<Item>,
    pub minimal_faults: u32,
    pub runs: usize,
    pub steps: Vec<String>,
}

pub fn minimise(env: &Env, start: MiniWorld, item: Option<Item>, d0: Divergence, budget: usize) -> Result<Minimised, HarnessError> {
    let mut j = Judge { env, runs: 0, budget };
    let channel = d0.channel;
    let target = d0.input;
    let token_built = d0.observed.token_built;
    let mut cur = start;
    let mut best = d0;
    let mut steps: Vec<String> = Vec::new();

    // confirm the two-host world fails on its own
    match j.fails(&cur, channel)? {
        Some(d) => best = d,
        None => {
            steps.push("two-host world did not reproduce on its own; keeping the original".into());
            let m = fault_mask(&cur, target);
            return Ok(Minimised { mw: cur, divergence: best, item, minimal_faults: m, runs: j.runs, steps });
        },
    }

    macro_rules! attempt {
        ($label:expr, $cand:expr) => {{
            let cand: MiniWorld = $cand;
            if j.left() {
                if let Some(d) = j.fails(&cand, channel)? {
                    cur = cand;
                    best = d;
                    steps.push(format!("{}", $label));
                    true
                } else {
                    false
                }
            } else {
                false
            }
        }};
    }

    // 1. faults, one dimension at a time
    let r = cur.reference.clone();
    if cur.bad.env != r.env {
        let mut c = cur.clone();
        c.bad.env = r.env.clone();
        attempt!("reset env", c);
    }
    if cur.bad.clock_epoch_ns != r.clock_epoch_ns || cur.bad.clock_step_ns != r.clock_step_ns {
        let mut c = cur.clone();
        c.bad.clock_epoch_ns = r.clock_epoch_ns;
        c.bad.clock_step_ns = r.clock_step_ns;
        attempt!("reset clock", c);
    }
    if cur.bad.pid != r.pid {
        let mut c = cur.clone();
        c.bad.pid = r.pid;
        attempt!("reset pid", c);
    }
    if cur.bad.cwd != r.cwd {
        let mut c = cur.clone();
        c.bad.cwd = r.cwd.clone();
        attempt!("reset cwd", c);
    }
    if cur.bad.argv != r.argv {
        let mut c = cur.clone();
        c.bad.argv = r.argv.clone();
        attempt!("reset argv", c);
    }
    if cur.bad.hostname != r.hostname || cur.bad.uid != r.uid || cur.bad.ncpu != r.ncpu || cur.bad.exe != r.exe {
        let mut c = cur.clone();
        c.bad.hostname = r.hostname.clone();
        c.bad.uid = r.uid;
        c.bad.ncpu = r.ncpu;
        c.bad.exe = r.exe.clone();
        attempt!("reset hostname/uid/ncpu", c);
    }
    if cur.bad.fs_map != r.fs_map {
        let mut c = cur.clone();
        c.bad.fs_map = r.fs_map.clone();
        if !attempt!("reset file-system view", c) {
            // keep only the entries that matter
            let mut i = cur.bad.fs_map.len();
            while i > 0 {
                i -= 1;
                let mut c = cur.clone();
                c.bad.fs_map.remove(i);
                attempt!(format!("drop file-system entry #{}", i), c);
            }
        }
    }
    if cur.bad.alt_build != r.alt_build {
        let mut c = cur.clone();
        c.bad.alt_build = r.alt_build;
        attempt!("same build of the expander as the reference host", c);
    }
    if cur.bad.warm_disk != r.warm_disk {
        let mut c = cur.clone();
        c.bad.warm_disk = r.warm_disk;
        attempt!("cold disk", c);
    }
    if has_perturb(&cur.bad) {
        let mut c = cur.clone();
        c.bad.events.retain(|e| !matches!(e, Event::Perturb { .. }));
        attempt!("drop heap perturbations", c);
    }
    if cur.bad.events.iter().any(|e| matches!(e, Event::ExpandPair { third: Some(_), .. })) {
        let mut c = cur.clone();
        for e in c.bad.events.iter_mut() {
            if let Event::ExpandPair { third, .. } = e {
                *third = None;
            }
        }
        attempt!("concurrent groups of three reduced to pairs", c);
    }
    if cur.bad.events.iter().any(|e| matches!(e, Event::ExpandPair { .. })) {
        // no concurrency: every pair becomes two expansions one after the other
        let mut c = cur.clone();
        c.bad.events = unpair(&cur.bad.events, None);
        if !attempt!("run the concurrent pairs sequentially", c) {
            // keep only the pairs that matter
            let n_pairs = cur.bad.events.iter().filter(|e| matches!(e, Event::ExpandPair { .. })).count();
            for k in (0..n_pairs).rev() {
                let mut c = cur.clone();
                c.bad.events = unpair(&cur.bad.events, Some(k));
                attempt!(format!("run concurrent pair #{} sequentially", k), c);
            }
        }
    }
    if has_threads(&cur.bad) && !cur.bad.events.iter().any(|e| matches!(e, Event::ExpandPair { .. })) {
        let mut c = cur.clone();
        c.bad.events.retain(|e| !matches!(e, Event::Spawn { .. }));
        let mut seen_order0 = false;
        c.bad.events.retain(|e| match e {
            Event::Order { tid, .. } => {
                if *tid == 0 && !seen_order0 {
                    seen_order0 = true;
                    true
                } else {
                    false
                }
            },
            _ => true,
        });
        for e in c.bad.events.iter_mut() {
            match e {
                Event::Expand { tid, .. } | Event::ExpandTokens { tid, .. } | Event::Perturb { tid, .. } => *tid = 0,
                _ => {},
            }
        }
        attempt!("move everything to the main thread", c);
    }
    {
        // history: only the target expansion (keeping thread + order set-up for its thread)
        let last = cur.bad.events.iter().rposition(|e| matches!(e, Event::Expand { input, .. } | Event::ExpandTokens { input, .. } if *input == target));
        let in_pair = cur.bad.events.iter().any(|e| matches!(e, Event::ExpandPair { a_input, b_input, third, .. } if *a_input == target || *b_input == target || third.map(|t| t.1 == target).unwrap_or(false)));
        if let (Some(last), false) = (last, in_pair) {
            let tid = match &cur.bad.events[last] {
                Event::Expand { tid, .. } | Event::ExpandTokens { tid, .. } => *tid,
                _ => 0,
            };
            let mut c = cur.clone();
            let mut ev: Vec<Event> = Vec::new();
            for e in &cur.bad.events[..last] {
                match e {
                    Event::Spawn { tid: t } if *t == tid => ev.push(e.clone()),
                    Event::Order { tid: t, .. } if *t == tid => ev.push(e.clone()),
                    _ => {},
                }
            }
            ev.push(cur.bad.events[last].clone());
            if ev.len() < cur.bad.events.len() {
                c.bad.events = ev;
                attempt!("history reduced to the single expansion", c);
            }
        }
    }
    if has_order(&cur.bad) {
        let mut c = cur.clone();
        c.bad.events.retain(|e| !matches!(e, Event::Order { .. }));
        attempt!("drop order policy", c);
    }
    if cur.bad.entropy_seed != r.entropy_seed || cur.bad.entropy_skip != r.entropy_skip {
        let mut c = cur.clone();
        c.bad.entropy_seed = r.entropy_seed;
        c.bad.entropy_skip = r.entropy_skip;
        attempt!("reset entropy seed", c);
    }

    // 2a. history in chunks (ddmin style): halves, quarters, ... of the events that are not
    //     thread set-up and not an expansion of the target input -- long histories (marathons)
    //     shrink in O(log n) judgements instead of one per event
    for side in 0..2 {
        let mut chunk = {
            let n = if side == 0 { cur.bad.events.len() } else { cur.reference.events.len() };
            n / 2
        };
        while chunk >= 2 && j.left() {
            let mut start = 0;
            loop {
                let evs = if side == 0 { &cur.bad.events } else { &cur.reference.events };
                if start >= evs.len() || !j.left() {
                    break;
                }
                let end = (start + chunk).min(evs.len());
                let mut c = cur.clone();
                let keep = |e: &Event| matches!(e, Event::Spawn { .. } | Event::Order { .. }) || matches!(e, Event::Expand { input, .. } | Event::ExpandTokens { input, .. } if *input == target) || matches!(e, Event::ExpandPair { a_input, b_input, third, .. } if *a_input == target || *b_input == target || third.map(|t| t.1 == target).unwrap_or(false));
                let ev: Vec<Event> = evs.iter().enumerate().filter(|(i, e)| *i < start || *i >= end || keep(e)).map(|(_, e)| e.clone()).collect();
                if ev.len() == evs.len() {
                    start = end;
                    continue;
                }
                if side == 0 {
                    c.bad.events = ev;
                } else {
                    c.reference.events = ev;
                }
                if !attempt!(format!("drop a chunk of {} {} events at #{}", chunk, if side == 0 { "faulty-host" } else { "reference-host" }, start), c) {
                    start = end;
                }
            }
            chunk /= 2;
        }
    }

    // 2. history, event by event (from the end)
    let mut progress = true;
    while progress && j.left() {
        progress = false;
        let mut i = cur.bad.events.len();
        while i > 0 && j.left() {
            i -= 1;
            if cur.bad.events.len() <= 1 {
                break;
            }
            let mut c = cur.clone();
            c.bad.events.remove(i);
            // a thread's Spawn must stay if the thread is still used
            let ok = threads_ok(&c.bad.events);
            if !ok {
                continue;
            }
            if attempt!(format!("drop event #{}", i), c) {
                progress = true;
            }
        }
    }

    // 3. reference host: only the target
    if cur.reference.events.len() > 1 {
        let mut c = cur.clone();
        c.reference.events = vec![Event::Expand { tid: 0, input: target }, Event::ExpandTokens { tid: 0, input: target }];
        attempt!("reference history reduced to the single expansion", c);
    }

    // 3b. reference history, event by event
    if cur.reference.events.len() > 1 {
        let mut i = cur.reference.events.len();
        while i > 0 && j.left() {
            i -= 1;
            if cur.reference.events.len() <= 1 {
                break;
            }
            if matches!(&cur.reference.events[i], Event::Expand { input, .. } | Event::ExpandTokens { input, .. } if *input == target) {
                continue;
            }
            let mut c = cur.clone();
            c.reference.events.remove(i);
            attempt!(format!("drop reference event #{}", i), c);
        }
    }

    // 4. the input itself
    let mut item = item;
    let mask_now = fault_mask(&cur, target);
    let use_panel = cur.build == Build::Plain && mask_now & (F_ENTROPY | F_THREAD) != 0;
    if let Some(it) = item.as_mut() {
        let set_text = |mw: &mut MiniWorld, t: String| {
            for x in mw.texts.iter_mut() {
                if x.0 == target {
                    x.1 = t.clone();
                }
            }
        };
        let mut judge_item = |cand: &Item, cur: &MiniWorld, j: &mut Judge| -> Result<Option<(MiniWorld, Divergence)>, HarnessError> {
            let mut c = cur.clone();
            set_text(&mut c, cand.render());
            if let Some(d) = j.fails(&c, channel)? {
                return Ok(Some((c, d)));
            }
            if use_panel {
                let mut p = c.clone();
                p.bad = panel_host(&c.bad, target, 12, token_built);
                if let Some(d) = j.fails(&p, channel)? {
                    // thread t of the panel drew words 2(t-1), 2(t-1)+1 of the stream: give
                    // exactly those to the main thread of a single-expansion host
                    let t = d.observed.tid as u64;
                    if t >= 1 {
                        let mut s = c.clone();
                        s.bad.events.retain(|e| matches!(e, Event::Order { tid: 0, .. }));
                        s.bad.events.push(if token_built { Event::ExpandTokens { tid: 0, input: target } } else { Event::Expand { tid: 0, input: target } });
                        s.bad.entropy_skip = c.bad.entropy_skip + 2 * (t - 1);
                        if let Some(d2) = j.fails(&s, channel)? {
                            return Ok(Some((s, d2)));
                        }
                    }
                    return Ok(Some((p, d)));
                }
            }
            Ok(None)
        };
        let mut progress = true;
        while progress && j.left() {
            progress = false;
            // members (with their attributes)
            let mut mi = it.members.len();
            while mi > 0 && j.left() {
                mi -= 1;
                let mut cand = it.clone();
                cand.members.remove(mi);
                if let Some((c, d)) = judge_item(&cand, &cur, &mut j)? {
                    *it = cand;
                    cur = c;
                    best = d;
                    steps.push(format!("drop member #{}", mi));
                    progress = true;
                }
            }
            let mut ai = it.type_attrs.len();
            while ai > 0 && j.left() {
                ai -= 1;
                let mut cand = it.clone();
                cand.type_attrs.remove(ai);
                if let Some((c, d)) = judge_item(&cand, &cur, &mut j)? {
                    *it = cand;
                    cur = c;
                    best = d;
                    steps.push(format!("drop type attribute #{}", ai));
                    progress = true;
                }
            }
            for mi in 0..it.members.len() {
                let mut ai = it.members[mi].attrs.len();
                while ai > 0 && j.left() {
                    ai -= 1;
                    let mut cand = it.clone();
                    cand.members[mi].attrs.remove(ai);
                    if let Some((c, d)) = judge_item(&cand, &cur, &mut j)? {
                        *it = cand;
                        cur = c;
                        best = d;
                        steps.push(format!("drop attribute #{} of member #{}", ai, mi));
                        progress = true;
                    }
                }
            }
            if (!it.generics.is_empty() || !it.where_clause.is_empty()) && j.left() {
                let mut cand = it.clone();
                cand.generics.clear();
                cand.where_clause.clear();
                if let Some((c, d)) = judge_item(&cand, &cur, &mut j)? {
                    *it = cand;
                    cur = c;
                    best = d;
                    steps.push("drop generics".into());
                    progress = true;
                }
            }
        }
    }

    // drop input definitions nobody uses any more
    let mut used: Vec<u32> = cur.reference.events.iter().chain(cur.bad.events.iter()).filter_map(|e| if let Event::Expand { input, .. } | Event::ExpandTokens { input, .. } = e { Some(*input) } else { None }).collect();
    // (the members of a concurrent group are used too)
    for e in cur.reference.events.iter().chain(cur.bad.events.iter()) {
        if let Event::ExpandPair { a_input, b_input, third, .. } = e {
            used.push(*a_input);
            used.push(*b_input);
            if let Some((_, c)) = third {
                used.push(*c);
            }
        }
    }
    cur.texts.retain(|t| used.contains(&t.0));

    let m = fault_mask(&cur, target);
    Ok(Minimised { mw: cur, divergence: best, item, minimal_faults: m, runs: j.runs, steps })
}

pub fn _unused() -> u32 {
    F_ENV | F_CLOCK | F_PID | F_CWD | F_ARGV | F_HISTORY
}
