//! The simulator's only source of randomness: xoshiro256** seeded through splitmix64.
//! One `VERIF_SEED` -> one stream of world seeds -> everything else.  Never seeded from the
//! OS, never drawn from in logging paths.

#[derive(Clone, Debug)]
pub struct Rng {
    s: [u64; 4],
}

pub fn splitmix64(state: &mut u64) -> u64 {
    *state = state.wrapping_add(0x9E37_79B9_7F4A_7C15);
    let mut z = *state;
    z = (z ^ (z >> 30)).wrapping_mul(0xBF58_476D_1CE4_E5B9);
    z = (z ^ (z >> 27)).wrapping_mul(0x94D0_49BB_1331_11EB);
    z ^ (z >> 31)
}

impl Rng {
    pub fn new(seed: u64) -> Rng {
        let mut st = seed;
        let s = [splitmix64(&mut st), splitmix64(&mut st), splitmix64(&mut st), splitmix64(&mut st)];
        Rng { s }
    }

    /// An independent generator derived from this one's seed material and a label; does not
    /// advance `self`.
    pub fn fork(&self, label: u64) -> Rng {
        Rng::new(self.s[0] ^ self.s[2].rotate_left(17) ^ label.wrapping_mul(0xD6E8_FEB8_6659_FD93))
    }

    pub fn next_u64(&mut self) -> u64 {
        let result = self.s[1].wrapping_mul(5).rotate_left(7).wrapping_mul(9);
        let t = self.s[1] << 17;
        self.s[2] ^= self.s[0];
        self.s[3] ^= self.s[1];
        self.s[1] ^= self.s[2];
        self.s[0] ^= self.s[3];
        self.s[2] ^= t;
        self.s[3] = self.s[3].rotate_left(45);
        result
    }

    /// uniform in [0, n)
    pub fn below(&mut self, n: u64) -> u64 {
        if n <= 1 {
            return 0;
        }
        // rejection sampling to stay unbiased
        let zone = u64::MAX - (u64::MAX % n);
        loop {
            let v = self.next_u64();
            if v < zone {
                return v % n;
            }
        }
    }

    /// uniform in [lo, hi] inclusive
    pub fn range(&mut self, lo: usize, hi: usize) -> usize {
        lo + self.below((hi - lo + 1) as u64) as usize
    }

    pub fn chance(&mut self, num: u64, den: u64) -> bool {
        self.below(den) < num
    }

    pub fn pick<'a, T>(&mut self, xs: &'a [T]) -> &'a T {
        &xs[self.below(xs.len() as u64) as usize]
    }

    pub fn shuffle<T>(&mut self, xs: &mut [T]) {
        for i in (1..xs.len()).rev() {
            let j = self.below((i + 1) as u64) as usize;
            xs.swap(i, j);
        }
    }
}

pub fn fnv64(bytes: &[u8]) -> u64 {
    let mut h = 0xCBF2_9CE4_8422_2325u64;
    for b in bytes {
        h ^= *b as u64;
        h = h.wrapping_mul(0x0000_0100_0000_01B3);
    }
    h
}
