//! Tier R (thorough): the simulated-host result is confirmed end to end.  Two generated
//! crates per back-end -- `rej` (inputs o2o rejects with >= 2 diagnostics) and `acc` (inputs
//! it accepts) -- are compiled by the real cargo + rustc with the real `o2o-macros` dylib
//! loaded into rustc, under the same LD_PRELOAD shim, at several entropy seeds and two
//! environment blocks.  Observed: the sequence of compiler diagnostics (message, line,
//! column) for `rej`, and the `-Zunpretty=expanded` text for `acc`.  Every run must equal
//! the first run of its crate.

use crate::corpus::Corpus;
use crate::gen::{self, Class};
use crate::oracle::{first_diff, order_sensitive};
use crate::plan::{run_host, Backend, Build, Event, HostCfg};
use crate::prng::Rng;
use crate::Cfg;
use serde_json::{json, Value};
use std::path::{Path, PathBuf};
use std::process::Command;

pub struct TierResult {
    pub json: Value,
    pub violation: Option<(String, PathBuf)>,
    /// further violations (e.g. the other back-end's), each with a replay file of its own
    pub more: Vec<(String, PathBuf)>,
}

#[derive(Clone, Debug)]
pub struct RunCfg {
    pub entropy_seed: u64,
    pub extra_env: Vec<(String, String)>,
}

fn noisy_env(rng: &mut Rng, dict: &[String]) -> Vec<(String, String)> {
    let mut v = vec![
        ("O2O_DEBUG".to_string(), "1".to_string()),
        ("O2O_LOG".to_string(), "trace".to_string()),
        ("SOURCE_DATE_EPOCH".to_string(), format!("{}", rng.next_u64() % 2_000_000_000)),
        ("TZ".to_string(), "Pacific/Kiritimati".to_string()),
        ("LANG".to_string(), "tr_TR.UTF-8".to_string()),
        ("LC_ALL".to_string(), "C".to_string()),
        ("RUST_BACKTRACE".to_string(), "full".to_string()),
        ("NO_COLOR".to_string(), "1".to_string()),
        ("CI".to_string(), "true".to_string()),
        ("DOCS_RS".to_string(), "1".to_string()),
    ];
    v.push(("SIM_JUNK".to_string(), "j".repeat(rng.range(100, 3000))));
    // names from the expander's own sources (dictionary)
    // (not the variables by which cargo and rustup themselves choose the compiler and the
    // directories: with those set to "1" there is no compilation to observe)
    const TOOLING: [&str; 16] = ["RUSTC", "RUSTDOC", "RUSTC_WRAPPER", "RUSTC_WORKSPACE_WRAPPER", "RUSTFLAGS", "RUSTDOCFLAGS", "RUSTUP_TOOLCHAIN", "RUSTUP_HOME", "CARGO", "CARGO_HOME", "CARGO_TARGET_DIR", "CARGO_BUILD_TARGET", "CARGO_ENCODED_RUSTFLAGS", "PATH", "HOME", "LD_PRELOAD"];
    for k in dict {
        if !v.iter().any(|e| &e.0 == k) && !TOOLING.contains(&k.as_str()) && !k.starts_with("CARGO_BUILD_") && !k.starts_with("CARGO_PROFILE_") {
            v.push((k.clone(), "1".to_string()));
        }
    }
    v
}

fn write_if_changed(p: &Path, s: &str) {
    if std::fs::read_to_string(p).map(|old| old == s).unwrap_or(false) {
        return;
    }
    let _ = std::fs::create_dir_all(p.parent().unwrap());
    std::fs::write(p, s).expect("write");
}

/// how many items get a second, identical copy (`pub mod d<i>`) at the end of the crate
const DUPLICATES: usize = 6;

fn crate_source(items: &[String]) -> String {
    let order: Vec<usize> = (0..items.len()).collect();
    let mut s = crate_source_ordered(items, &order);
    // the same item twice in one crate -- expanded twice by one rustc process: everything about the
    // two expansions must agree, hygiene included (compared by `hygiene_of_duplicates`)
    for i in 0..items.len().min(DUPLICATES) {
        s.push_str(&format!("pub mod d{} {{\nuse o2o::o2o;\n#[derive(o2o)]\n{}}}\n", i, items[i]));
    }
    s
}

/// The text of `pub mod <prefix><i> { ... }` in an expanded crate, hygiene annotations
/// `/* sym#ctxt */` renumbered by first appearance of the syntax context inside the block.
fn hygiene_block(rendering: &str, prefix: char, i: usize) -> Option<String> {
    // (`pub mod d0 /* 3198#0 */ {`: the name carries an annotation of its own)
    let head = format!("pub mod {}{} ", prefix, i);
    let at = rendering.find(&head)? + head.len();
    let start = at + rendering[at..].find('{')? + 1;
    let b = rendering.as_bytes();
    let mut depth = 1i32;
    let mut k = start;
    while k < b.len() && depth > 0 {
        match b[k] {
            b'{' => depth += 1,
            b'}' => depth -= 1,
            _ => {},
        }
        k += 1;
    }
    if depth != 0 {
        return None;
    }
    let body = &rendering[start..k - 1];
    let mut out = String::with_capacity(body.len());
    let mut ctxts: Vec<String> = Vec::new();
    let mut rest = body;
    while let Some(p) = rest.find("/*") {
        out.push_str(&rest[..p]);
        let Some(q) = rest[p..].find("*/") else { break };
        let inner = rest[p + 2..p + q].trim();
        match inner.split_once('#') {
            Some((_sym, ctxt)) if ctxt.chars().all(|c| c.is_ascii_digit()) && !ctxt.is_empty() => {
                let idx = match ctxts.iter().position(|c| c == ctxt) {
                    Some(x) => x,
                    None => {
                        ctxts.push(ctxt.to_string());
                        ctxts.len() - 1
                    },
                };
                out.push_str(&format!("/*#{}*/", idx));
            },
            _ => out.push_str(&rest[p..p + q + 2]),
        }
        rest = &rest[p + q + 2..];
    }
    out.push_str(rest);
    Some(out.split_whitespace().collect::<Vec<_>>().join(" "))
}

/// first duplicated item whose two expansions differ (in tokens or in hygiene), if any.
/// Compared token by token (rustc's pretty printer breaks lines -- and with them sets trailing
/// commas -- by the width of the annotations, whose numbers differ between the two copies).
fn hygiene_of_duplicates(rendering: &str, n_items: usize) -> Option<(usize, String)> {
    let (Some(ms), Some(ds)) = (module_token_blocks(rendering, 'm', false), module_token_blocks(rendering, 'd', false)) else { return None };
    for i in 0..n_items.min(DUPLICATES) {
        if let (Some(a), Some(b)) = (ms.iter().find(|x| x.0 == i), ds.iter().find(|x| x.0 == i)) {
            if a.1 != b.1 {
                return Some((i, first_diff(&a.1, &b.1)));
            }
        }
    }
    None
}

/// the same modules (same names), laid out in the given order: rustc expands derives in
/// source order, so this is the *history* fault of the end-to-end tier
fn crate_source_ordered(items: &[String], order: &[usize]) -> String {
    let mut s = String::from("#![allow(warnings)]\n");
    for i in order {
        s.push_str(&format!("pub mod m{} {{\nuse o2o::o2o;\n#[derive(o2o)]\n{}}}\n", i, items[*i]));
    }
    s
}

/// The same modules in the given order, each item in different *surroundings*: plainly in its
/// module, in a nested module, in a function body, or produced by a `macro_rules!` expansion
/// (its tokens then carry the macro definition's spans and hygiene).  The derive inputs are
/// the same token for token.
fn crate_source_surroundings(items: &[String], order: &[usize]) -> (String, Vec<(String, String)>) {
    // (the dependency is renamed in the other package's manifest)
    let mut s = String::from("#![allow(warnings)]\nextern crate mapper as o2o;\n#[macro_use]\nmod defs;\n");
    let mut defs = String::from("// macro definitions living in a file of their own\n");
    for i in order {
        let it = &items[*i];
        match i % 5 {
            0 => s.push_str(&format!("pub mod m{} {{\nuse o2o::o2o;\n#[derive(o2o)]\n{}}}\n", i, it)),
            1 => s.push_str(&format!("pub mod m{} {{\npub mod inner {{ pub mod deeper {{\nuse o2o::o2o;\n#[derive(o2o)]\n{}}} }}\n}}\n", i, it)),
            2 => s.push_str(&format!("pub mod m{} {{\nfn surrounding_fn() {{\nuse o2o::o2o;\n#[derive(o2o)]\n{}}}\n}}\n", i, it)),
            3 => s.push_str(&format!("pub mod m{} {{\nmacro_rules! make_item {{ () => {{\nuse o2o::o2o;\n#[derive(o2o)]\n{}}} }}\nmake_item!();\n}}\n", i, it)),
            _ => {
                // the item's own attributes are written at the invocation (this file), the rest
                // of the item in the macro's definition (another file, other line numbers)
                match split_leading_attrs(it) {
                    Some((attrs, rest)) => {
                        defs.push_str(&format!("macro_rules! make_split_{} {{ ($($a:tt)*) => {{\nuse o2o::o2o;\n#[derive(o2o)]\n$($a)*\n{}\n}} }}\n", i, rest));
                        s.push_str(&format!("pub mod m{} {{\nmake_split_{}!(\n{}\n);\n}}\n", i, i, attrs));
                    },
                    None => s.push_str(&format!("pub mod m{} {{\nuse o2o::o2o;\n#[derive(o2o)]\n{}}}\n", i, it)),
                }
            },
        }
    }
    (s, vec![("defs.rs".to_string(), defs)])
}

/// (leading `#[..]` attributes, everything after them), each as source text with the same tokens
fn split_leading_attrs(item: &str) -> Option<(String, String)> {
    use proc_macro2::{Delimiter, TokenTree};
    let ts: proc_macro2::TokenStream = item.parse().ok()?;
    let v: Vec<TokenTree> = ts.into_iter().collect();
    let mut k = 0;
    while k + 1 < v.len() {
        let hash = matches!(&v[k], TokenTree::Punct(p) if p.as_char() == '#');
        let group = matches!(&v[k + 1], TokenTree::Group(g) if g.delimiter() == Delimiter::Bracket);
        if hash && group {
            k += 2;
        } else {
            break;
        }
    }
    let text = |t: &[TokenTree]| t.iter().cloned().collect::<proc_macro2::TokenStream>().to_string();
    // `$` in a macro body would be read as a metavariable
    let (a, r) = (text(&v[..k]), text(&v[k..]));
    if a.contains('$') || r.contains('$') {
        return None;
    }
    Some((a, r))
}

/// Token-level rendering of an expansion, module by module, with the surroundings unwrapped:
/// everything inside `mod mK { .. }` -- the item, whatever the derive produced beside it, in
/// order -- as a flat token string.  Formatting (where rustc's pretty printer breaks lines
/// and hence adds trailing commas, which depends on the indentation of the surroundings) is
/// not part of it; every token is.
fn canon_tokens(ts: proc_macro2::TokenStream, out: &mut String) {
    use proc_macro2::{Delimiter, TokenTree};
    let v: Vec<TokenTree> = ts.into_iter().collect();
    let mut n = v.len();
    // a trailing comma before a closing delimiter is formatting
    if n > 0 {
        if let TokenTree::Punct(p) = &v[n - 1] {
            if p.as_char() == ',' {
                n -= 1;
            }
        }
    }
    for t in &v[..n] {
        match t {
            TokenTree::Group(g) => {
                let (o, c) = match g.delimiter() {
                    Delimiter::Parenthesis => ("(", ")"),
                    Delimiter::Brace => ("{", "}"),
                    Delimiter::Bracket => ("[", "]"),
                    Delimiter::None => ("", ""),
                };
                out.push_str(o);
                out.push(' ');
                canon_tokens(g.stream(), out);
                out.push_str(c);
                out.push(' ');
            },
            TokenTree::Punct(p) => {
                // (whether two puncts are printed adjacent is the pretty printer's choice)
                out.push(p.as_char());
                out.push(' ');
            },
            other => {
                out.push_str(&other.to_string());
                out.push(' ');
            },
        }
    }
}

fn unwrap_surroundings(ts: proc_macro2::TokenStream) -> proc_macro2::TokenStream {
    use proc_macro2::{Delimiter, TokenTree};
    let mut v: Vec<TokenTree> = ts.into_iter().collect();
    loop {
        let is_ident = |t: &TokenTree, s: &str| matches!(t, TokenTree::Ident(i) if i == s);
        // (hygiene annotations of the wrappers' own names are not part of any item)
        let is_ctx = |t: &TokenTree| matches!(t, TokenTree::Ident(i) if i.to_string().starts_with("__ctx_"));
        let mut k = 0;
        while k + 1 < v.len() {
            if (is_ident(&v[k], "inner") || is_ident(&v[k], "deeper") || is_ident(&v[k], "surrounding_fn") || is_ident(&v[k], "make_item") || is_ident(&v[k], "macro_rules")) && is_ctx(&v[k + 1]) {
                v.remove(k + 1);
            } else {
                k += 1;
            }
        }
        // the definition of the macro that produced the item stays in the expanded crate
        if let Some(k) = (0..v.len().saturating_sub(3)).find(|&k| is_ident(&v[k], "macro_rules") && is_ident(&v[k + 2], "make_item") && matches!(&v[k + 3], TokenTree::Group(_))) {
            v.drain(k..k + 4);
            continue;
        }
        if v.len() == 4 && is_ident(&v[0], "pub") && is_ident(&v[1], "mod") && (is_ident(&v[2], "inner") || is_ident(&v[2], "deeper")) {
            if let TokenTree::Group(g) = &v[3] {
                if g.delimiter() == Delimiter::Brace {
                    v = g.stream().into_iter().collect();
                    continue;
                }
            }
        }
        if v.len() == 4 && is_ident(&v[0], "fn") && is_ident(&v[1], "surrounding_fn") {
            if let TokenTree::Group(g) = &v[3] {
                if g.delimiter() == Delimiter::Brace {
                    v = g.stream().into_iter().collect();
                    continue;
                }
            }
        }
        break;
    }
    v.into_iter().collect()
}

/// None if rustc's output does not lex as Rust (then nothing is compared: never an alarm)
fn normalise_acc_modules(rendering: &str) -> Option<String> {
    let blocks = module_token_blocks(rendering, 'm', true)?;
    Some(blocks.into_iter().map(|b| format!("m{}: {}", b.0, b.1)).collect::<Vec<_>>().join("\n"))
}

/// (index, canonical token string) of every `mod <prefix><index> { .. }` of an expanded crate
fn module_token_blocks(rendering: &str, prefix: char, drop_ctx_of_split_items: bool) -> Option<Vec<(usize, String)>> {
    use proc_macro2::{Delimiter, TokenTree};
    // hygiene annotations `/* sym#ctxt */` (comments to a lexer) become identifier tokens
    // `__ctx_<ctxt>`; below they are renumbered by first appearance inside each module, so that
    // two expansions are compared in the *structure* of their syntax contexts, not in the numbers
    let mut pre = String::with_capacity(rendering.len());
    let mut rest = rendering;
    while let Some(p) = rest.find("/*") {
        pre.push_str(&rest[..p]);
        let Some(q) = rest[p..].find("*/") else {
            rest = "";
            break;
        };
        let inner = rest[p + 2..p + q].trim();
        if let Some((sym, ctxt)) = inner.split_once('#') {
            if !ctxt.is_empty() && ctxt.chars().all(|c| c.is_ascii_digit()) && sym.chars().all(|c| c.is_ascii_digit()) {
                pre.push_str(&format!(" __ctx_{} ", ctxt));
            }
        }
        rest = &rest[p + q + 2..];
    }
    pre.push_str(rest);
    let rendering = pre.as_str();
    let ts: proc_macro2::TokenStream = rendering.parse().ok()?;
    let v: Vec<TokenTree> = ts.into_iter().collect();
    let mut blocks: Vec<(usize, String)> = Vec::new();
    for i in 0..v.len().saturating_sub(2) {
        let (TokenTree::Ident(kw), TokenTree::Ident(name)) = (&v[i], &v[i + 1]) else { continue };
        if kw != "mod" {
            continue;
        }
        // (the name may be followed by its own hygiene annotation)
        let gi = if matches!(v.get(i + 2), Some(TokenTree::Ident(c)) if c.to_string().starts_with("__ctx_")) { i + 3 } else { i + 2 };
        let Some(TokenTree::Group(g)) = v.get(gi) else { continue };
        if g.delimiter() != Delimiter::Brace {
            continue;
        }
        let name = name.to_string();
        let Some(k) = name.strip_prefix(prefix).and_then(|x| x.parse::<usize>().ok()) else { continue };
        let mut s = String::new();
        canon_tokens(unwrap_surroundings(g.stream()), &mut s);
        // (an item whose attributes come from a macro's call site and whose body comes from the
        // macro's definition -- surroundings 4 of 5 -- legitimately mixes two syntax contexts)
        let drop_ctx = drop_ctx_of_split_items && k % 5 == 4;
        let mut seen: Vec<&str> = Vec::new();
        let mut t = String::with_capacity(s.len());
        for w in s.split(' ') {
            if let Some(c) = w.strip_prefix("__ctx_") {
                if drop_ctx {
                    continue;
                }
                let idx = match seen.iter().position(|x| *x == c) {
                    Some(i) => i,
                    None => {
                        seen.push(c);
                        seen.len() - 1
                    },
                };
                t.push_str(&format!("#{} ", idx));
            } else if !w.is_empty() {
                t.push_str(w);
                t.push(' ');
            }
        }
        blocks.push((k, t));
    }
    if blocks.is_empty() {
        // nothing recognised: comparing two empty renderings would be a vacuous "equal"
        return None;
    }
    blocks.sort_by_key(|b| b.0);
    Some(blocks)
}

/// `rej` rendering as (module, level, message) in emitted order per module, positions dropped,
/// restricted to the diagnostics the *derive* produced (their texts are known from the host
/// tier): what rustc itself reports about an item -- unresolved types, misplaced bounds --
/// legitimately depends on where the item sits (module, function body, macro expansion)
fn normalise_rej_messages(rendering: &str, lib_rs: &str, o2o_messages: &std::collections::BTreeSet<String>) -> String {
    normalise_rej(rendering, lib_rs)
        .lines()
        .filter_map(|l| {
            let mut it = l.rsplitn(2, '|');
            let pos = it.next().unwrap_or("");
            let head = it.next().unwrap_or(l).to_string();
            let msg = head.splitn(3, '|').nth(2).unwrap_or("");
            if o2o_messages.contains(msg) || msg.starts_with("proc-macro derive panicked") || pos.ends_with(":d") {
                Some(head)
            } else {
                None
            }
        })
        .collect::<Vec<_>>()
        .join("\n")
}

/// `rej` rendering made independent of where a module sits in the file: every diagnostic is
/// keyed by its module and its line relative to the module's first line, then sorted by module
fn normalise_rej(rendering: &str, lib_rs: &str) -> String {
    let mut starts: Vec<(usize, usize)> = Vec::new(); // (first line, module index)
    for (ln, line) in lib_rs.lines().enumerate() {
        if let Some(rest) = line.strip_prefix("pub mod m") {
            if let Some(k) = rest.split(' ').next().and_then(|x| x.parse::<usize>().ok()) {
                starts.push((ln + 1, k));
            }
        } else if line.starts_with("pub mod d") {
            // the second copies at the end of the crate are compared on their own
            starts.push((ln + 1, usize::MAX - 1));
        }
    }
    let mut out: Vec<(usize, usize, String)> = Vec::new();
    for (seq, l) in rendering.lines().enumerate() {
        let mut parts = l.rsplitn(2, '|');
        let pos = parts.next().unwrap_or("");
        let head = parts.next().unwrap_or("");
        let own_line: usize = pos.split(':').next().and_then(|x| x.parse().ok()).unwrap_or(0);
        let col = pos.split(':').nth(1).unwrap_or("");
        let line: usize = pos.split(':').nth(2).and_then(|x| x.parse().ok()).unwrap_or(own_line);
        let (start, k) = starts.iter().rev().find(|(s, _)| *s <= line).copied().unwrap_or((0, usize::MAX));
        if k == usize::MAX - 1 {
            continue;
        }
        let flag = pos.split(':').nth(3).unwrap_or("-");
        out.push((k, seq, format!("m{}|{}|+{}:{}:{}", k, head, own_line.saturating_sub(start), col, flag)));
    }
    // stable: diagnostics of one module keep their emitted order
    out.sort_by_key(|x| (x.0, x.1));
    out.into_iter().map(|x| x.2).collect::<Vec<_>>().join("\n")
}

/// `acc` rendering split into module blocks, hygiene annotations stripped, sorted by module
fn normalise_acc(rendering: &str) -> String {
    // strip /* n#m */ comments
    let mut t = String::with_capacity(rendering.len());
    let mut rest = rendering;
    while let Some(i) = rest.find("/*") {
        t.push_str(&rest[..i]);
        match rest[i..].find("*/") {
            Some(j) => rest = &rest[i + j + 2..],
            None => {
                rest = "";
                break;
            },
        }
    }
    t.push_str(rest);
    let t: String = t.split_whitespace().collect::<Vec<_>>().join(" ");
    let mut blocks: Vec<(usize, String)> = Vec::new();
    let mut cur: Option<(usize, String)> = None;
    for piece in t.split("pub mod m") {
        if cur.is_none() && blocks.is_empty() && !t.starts_with("pub mod m") {
            cur = Some((usize::MAX, String::new())); // crate preamble
        }
        if let Some(c) = cur.take() {
            if c.0 != usize::MAX {
                blocks.push(c);
            }
        }
        let k = piece.split(|c: char| !c.is_ascii_digit()).next().and_then(|x| x.parse::<usize>().ok());
        if let Some(k) = k {
            cur = Some((k, piece.trim().to_string()));
        }
    }
    if let Some(c) = cur.take() {
        if c.0 != usize::MAX {
            blocks.push(c);
        }
    }
    blocks.sort_by_key(|b| b.0);
    blocks.into_iter().map(|b| format!("m{}", b.1)).collect::<Vec<_>>().join("\n")
}

/// a second installed toolchain (`nightly`), or None; `SIM_TIER_R_TOOLCHAIN=none|<name>` overrides
pub fn other_toolchain() -> Option<&'static str> {
    static TC: std::sync::OnceLock<Option<String>> = std::sync::OnceLock::new();
    TC.get_or_init(|| {
        match std::env::var("SIM_TIER_R_TOOLCHAIN") {
            Ok(v) if v == "none" => return None,
            Ok(v) if !v.is_empty() => return Some(v),
            _ => {},
        }
        let ok = Command::new("cargo").args(["+nightly", "--version"]).env_remove("RUSTUP_TOOLCHAIN").output().map(|o| o.status.success()).unwrap_or(false);
        if ok {
            Some("nightly".to_string())
        } else {
            None
        }
    })
    .as_deref()
}

fn cargo_cmd(dir: &Path, target: &Path, shim: Option<(&Path, &RunCfg)>) -> Command {
    let mut c = Command::new("cargo");
    c.current_dir(dir);
    // a controlled environment block: only what cargo and rustup need to run at all; the
    // ambient variables of whoever started the check (RUST_BACKTRACE, RUST_LOG, ...) must
    // not decide what the reference run looks like
    c.env_clear();
    for k in ["PATH", "HOME", "CARGO_HOME", "RUSTUP_HOME", "RUSTUP_TOOLCHAIN", "LD_LIBRARY_PATH"] {
        if let Ok(v) = std::env::var(k) {
            c.env(k, v);
        }
    }
    // the *other package* (directories named `*-alt`) is also built by another toolchain, if one
    // is installed: rustc, std, and the proc_macro bridge the macro talks to are all different
    if dir.file_name().map(|n| n.to_string_lossy().ends_with("-alt")).unwrap_or(false) {
        if let Some(tc) = other_toolchain() {
            c.env("RUSTUP_TOOLCHAIN", tc);
        }
    }
    c.env("CARGO_NET_OFFLINE", "true");
    // a temp dir of its own, next to the crate: empty for the first run of a check (cold),
    // as the earlier runs left it for the later ones (warm)
    let tmp = dir.join("tmp");
    let _ = std::fs::create_dir_all(&tmp);
    c.env("TMPDIR", &tmp);
    c.env("CARGO_TARGET_DIR", target);
    c.env("RUSTC_BOOTSTRAP", "1");
    c.env("CARGO_BUILD_JOBS", "1");
    c.env_remove("RUSTFLAGS");
    c.env_remove("CARGO_ENCODED_RUSTFLAGS");
    if let Some((shim, rc)) = shim {
        c.env("LD_PRELOAD", shim);
        c.env("SIM_ENTROPY_SEED", rc.entropy_seed.to_string());
        for (k, v) in &rc.extra_env {
            c.env(k, v);
        }
    }
    c
}

/// (rendering, ok) of one build of the `rej` crate: ordered compiler diagnostics
fn render_rej(dir: &Path, target: &Path, shim: &Path, rc: &RunCfg) -> Result<String, String> {
    // (a transient empty result was seen once under heavy load: retry before giving up)
    let mut last = String::new();
    for attempt in 0..3 {
        match render_rej_once(dir, target, shim, rc) {
            Ok(r) => return Ok(r),
            Err(e) => {
                last = format!("attempt {}: {}", attempt + 1, e);
                std::thread::sleep(std::time::Duration::from_millis(300));
                // make sure cargo sees the crate as dirty
                let lib = dir.join("src/lib.rs");
                if let Ok(src) = std::fs::read_to_string(&lib) {
                    let _ = std::fs::write(&lib, src);
                }
            },
        }
    }
    Err(last)
}

fn render_rej_once(dir: &Path, target: &Path, shim: &Path, rc: &RunCfg) -> Result<String, String> {
    let out = cargo_cmd(dir, target, Some((shim, rc))).args(["build", "--offline", "--message-format=json"]).output().map_err(|e| format!("cargo: {}", e))?;
    let mut r = String::new();
    let mut n = 0;
    for line in String::from_utf8_lossy(&out.stdout).lines() {
        let Ok(v) = serde_json::from_str::<Value>(line) else { continue };
        if v["reason"] != "compiler-message" {
            continue;
        }
        // only the generated crate's own diagnostics (cargo also replays cached warnings of
        // path dependencies such as o2o-impl)
        if !v["package_id"].as_str().map(|p| p.contains("tier-r")).unwrap_or(false) {
            continue;
        }
        let m = &v["message"];
        let sp = &m["spans"][0];
        // one line per diagnostic: multi-line messages are flattened
        // (a token that came out of a macro_rules expansion is positioned in the macro's definition,
        // possibly in another file: the outermost call site says which module the diagnostic belongs to)
        let mut outer = sp;
        while outer["expansion"].is_object() && outer["expansion"]["span"].is_object() {
            outer = &outer["expansion"]["span"];
        }
        // does the diagnostic sit on the derive's own call site (no error code, expansion chain
        // through `#[derive(o2o)]`)?  Then it is the derive's, whatever its text
        let mut by_derive = false;
        let mut s2 = sp;
        while s2["expansion"].is_object() {
            if s2["expansion"]["macro_decl_name"].as_str().map(|n| n.contains("derive(o2o)")).unwrap_or(false) {
                by_derive = true;
            }
            s2 = &s2["expansion"]["span"];
        }
        let by_derive = by_derive && m["code"].is_null();
        r.push_str(&format!("{}|{}|{}:{}:{}:{}\n", m["level"].as_str().unwrap_or("?"), m["message"].as_str().unwrap_or("?").replace('\n', "\\n").replace('\r', ""), sp["line_start"], sp["column_start"], outer["line_start"], if by_derive { "d" } else { "-" }));
        n += 1;
    }
    if n == 0 {
        return Err(format!("rej crate produced no compiler messages; cargo status {:?}; stdout {} bytes; stderr: {}", out.status, out.stdout.len(), String::from_utf8_lossy(&out.stderr).chars().rev().take(600).collect::<String>().chars().rev().collect::<String>()));
    }
    Ok(r)
}

fn render_acc(dir: &Path, target: &Path, shim: &Path, rc: &RunCfg) -> Result<String, String> {
    render_acc_mode(dir, target, shim, rc, true)
}

/// `hygiene = false`: plain `-Zunpretty=expanded`.  Needed when two *different layouts* of the
/// crate are compared: the hygiene annotations carry interner indices whose width changes
/// rustc's line breaking (and with it e.g. trailing commas), which is formatting, not expansion.
fn render_acc_mode(dir: &Path, target: &Path, shim: &Path, rc: &RunCfg, hygiene: bool) -> Result<String, String> {
    // force the top crate to be recompiled
    let lib = dir.join("src/lib.rs");
    let src = std::fs::read_to_string(&lib).map_err(|e| e.to_string())?;
    std::fs::write(&lib, &src).map_err(|e| e.to_string())?;
    let mode = if hygiene { "-Zunpretty=expanded,hygiene" } else { "-Zunpretty=expanded" };
    let out = cargo_cmd(dir, target, Some((shim, rc))).args(["rustc", "--lib", "--offline", "-q", "--", mode]).output().map_err(|e| format!("cargo: {}", e))?;
    let s = String::from_utf8_lossy(&out.stdout).into_owned();
    if !s.contains("impl") {
        return Err(format!("acc crate: no expanded output; stderr: {}", String::from_utf8_lossy(&out.stderr).chars().take(800).collect::<String>()));
    }
    Ok(s)
}

fn setup_crate(dir: &Path, repo: &Path, backend: Backend, items: &[String]) -> Result<(), String> {
    setup_crate_as(dir, repo, backend, &crate_source(items), false)
}

/// rustc stops at the first derive whose output it cannot parse and then prints no expansion
/// at all.  The `acc` items were filtered with syn; what rustc still rejects (it happens for
/// a few exotic inputs) is found here, without the shim, and dropped: up to four rounds of
/// "expand, read the positions of the errors, remove those modules".
fn prune_acc(dir: &Path, target: &Path, repo: &Path, backend: Backend, items: &[String]) -> Result<Vec<String>, String> {
    let mut items: Vec<String> = items.to_vec();
    for _round in 0..4 {
        let lib = crate_source(&items);
        setup_crate_as(dir, repo, backend, &lib, false)?;
        let src_path = dir.join("src/lib.rs");
        std::fs::write(&src_path, &lib).map_err(|e| e.to_string())?;
        let out = cargo_cmd(dir, target, None).args(["rustc", "--lib", "--offline", "-q", "--message-format=json", "--", "-Zunpretty=expanded"]).output().map_err(|e| format!("cargo: {}", e))?;
        let stdout = String::from_utf8_lossy(&out.stdout);
        let mut bad_lines: Vec<usize> = Vec::new();
        let mut has_expansion = false;
        for line in stdout.lines() {
            if line.starts_with("{\"reason\"") {
                if let Ok(v) = serde_json::from_str::<Value>(line) {
                    if v["reason"] == "compiler-message" && v["message"]["level"] == "error" {
                        if let Some(l) = v["message"]["spans"][0]["line_start"].as_u64() {
                            bad_lines.push(l as usize);
                        }
                    }
                }
            } else if line.contains("impl") {
                has_expansion = true;
            }
        }
        if has_expansion {
            return Ok(items);
        }
        if bad_lines.is_empty() {
            return Err(format!("acc crate: no expanded output and no error position to prune; stderr: {}", String::from_utf8_lossy(&out.stderr).chars().take(400).collect::<String>()));
        }
        // line -> module index
        let mut starts: Vec<(usize, usize)> = Vec::new();
        for (ln, l) in lib.lines().enumerate() {
            if let Some(rest) = l.strip_prefix("pub mod m").or_else(|| l.strip_prefix("pub mod d")) {
                if let Some(k) = rest.split(' ').next().and_then(|x| x.parse::<usize>().ok()) {
                    starts.push((ln + 1, k));
                }
            }
        }
        let mut drop: Vec<usize> = bad_lines.iter().filter_map(|l| starts.iter().rev().find(|(s, _)| s <= l).map(|x| x.1)).collect();
        drop.sort();
        drop.dedup();
        if drop.is_empty() {
            return Err("acc crate: errors outside any module".to_string());
        }
        let mut k = 0;
        items.retain(|_| {
            let keep = !drop.contains(&k);
            k += 1;
            keep
        });
    }
    Err("acc crate: still no expanded output after four pruning rounds".to_string())
}

/// `alt = true`: the same source as a different *package* (name, version, authors,
/// manifest directory): everything cargo tells rustc -- and thereby a proc macro -- about the
/// crate being compiled (CARGO_PKG_*, CARGO_CRATE_NAME, CARGO_MANIFEST_DIR, --edition,
/// --crate-name) differs, the derive inputs do not
fn setup_crate_as(dir: &Path, repo: &Path, backend: Backend, lib_rs: &str, alt: bool) -> Result<(), String> {
    setup_crate_files(dir, repo, backend, lib_rs, &[], alt)
}

/// (the other package also *renames* the dependency: `mapper = { package = "o2o", .. }`, brought
/// back into scope under the name the generated code uses by `extern crate mapper as o2o;`)
fn setup_crate_files(dir: &Path, repo: &Path, backend: Backend, lib_rs: &str, extra: &[(String, String)], alt: bool) -> Result<(), String> {
    let (name, version, edition, extra_meta) = if alt { ("tier-r-alt-pkg", "9.9.9", "2021", "authors = [\"Somebody Else <else@example.org>\"]\ndescription = \"another crate\"\n") } else { ("tier-r", "0.0.0", "2021", "") };
    let dep = if alt {
        // ... and depends on the *copy* of the macro's sources that ./check build keeps in another
        // directory (the one the second build of the host tier is made from): `file!()`,
        // `Location::caller()`, `env!("CARGO_MANIFEST_DIR")` inside o2o-macros and o2o-impl differ
        let copy = dir.parent().and_then(|p| p.parent()).map(|b| b.join("repo-b"));
        let repo = match &copy {
            Some(c) if c.join("Cargo.toml").exists() => c.as_path(),
            _ => repo,
        };
        format!("mapper = {{ package = \"o2o\", path = \"{}\", default-features = false, features = [\"{}\"] }}", repo.display(), backend.tag())
    } else {
        format!("o2o = {{ path = \"{}\", default-features = false, features = [\"{}\"] }}", repo.display(), backend.tag())
    };
    let manifest = format!("[package]\nname = \"{}\"\nversion = \"{}\"\nedition = \"{}\"\n{}\n[workspace]\n\n[lib]\npath = \"src/lib.rs\"\n\n[dependencies]\n{}\n", name, version, edition, extra_meta, dep);
    write_if_changed(&dir.join("Cargo.toml"), &manifest);
    if !dir.join("Cargo.lock").exists() {
        // Cargo.lock is not tracked by the repository: a scratch worktree has none
        let lock = if repo.join("Cargo.lock").exists() { repo.join("Cargo.lock") } else { Path::new("/repo/Cargo.lock").to_path_buf() };
        if lock.exists() {
            std::fs::copy(&lock, dir.join("Cargo.lock")).map_err(|e| format!("copy Cargo.lock: {}", e))?;
        }
    }
    for (name, content) in extra {
        write_if_changed(&dir.join("src").join(name), content);
    }
    write_if_changed(&dir.join("src/lib.rs"), lib_rs);
    Ok(())
}

pub struct Selected {
    pub rej: Vec<String>,
    pub acc: Vec<String>,
    /// inputs on which the expander panics (rustc reports "proc-macro derive panicked")
    pub pan: Vec<String>,
    /// every diagnostic text the expander produced for the rejected inputs (host tier)
    pub o2o_messages: std::collections::BTreeSet<String>,
    pub candidates: usize,
}

pub fn select_items(cfg: &Cfg, corpus: &Corpus) -> Result<Selected, String> {
    let env = crate::make_env(cfg);
    let mut rng = Rng::new(cfg.seed ^ 0x7469_6572_5f52);
    let mut texts: Vec<(u32, String)> = Vec::new();
    let n = 500;
    for i in 0..n {
        let class = match i % 10 {
            0..=3 => Class::W1MultiMisuse,
            4 => Class::W2MultiCounterpart,
            5 => Class::W3Flatten,
            6 => Class::W4Repeat,
            7 => Class::W5Enum,
            _ => Class::W6Corpus,
        };
        texts.push((i as u32, gen::generate(&mut rng, corpus, class).render()));
    }
    let mut h = HostCfg::reference();
    h.events = (0..n as u32).map(|i| Event::Expand { tid: 0, input: i }).collect();
    let log = run_host(&env, Backend::Syn1, Build::Plain, &texts, &h).map_err(|e| e.0)?;
    let mut rej = Vec::new();
    let mut acc = Vec::new();
    let mut pan = Vec::new();
    let mut o2o_messages = std::collections::BTreeSet::new();
    for o in &log.obs {
        if o.verdict == "ERR" {
            for m in o.text.split('\u{1f}').filter(|m| !m.is_empty()) {
                o2o_messages.insert(m.replace('\n', "\\n").replace('\r', ""));
            }
        }
        let t = &texts[o.input as usize].1;
        if o.verdict == "ERR" && order_sensitive(o) && rej.len() < 60 {
            rej.push(t.clone());
        } else if o.verdict == "PANIC" && pan.len() < 12 {
            pan.push(t.clone());
        } else if o.verdict == "OK" && acc.len() < 80 && syn::parse_str::<syn::File>(&o.text).is_ok() {
            // (only expansions that are themselves parseable Rust: rustc stops at the first
            // unparsable derive output and would print nothing)
            acc.push(t.clone());
        }
    }
    Ok(Selected { rej, acc, pan, o2o_messages, candidates: n })
}

pub fn plan_runs(seed: u64, n: usize, dict: &[String]) -> Vec<RunCfg> {
    let mut rng = Rng::new(seed ^ 0x72_756e_73);
    let mut v = vec![RunCfg { entropy_seed: 0, extra_env: vec![] }];
    for i in 1..n {
        // with only two runs the second one carries the noisy environment
        let extra_env = if i % 2 == 0 || n == 2 { noisy_env(&mut rng, dict) } else { vec![] };
        v.push(RunCfg { entropy_seed: 1 + rng.next_u64() % 0xFFFF_FFFF, extra_env });
    }
    v
}

fn runcfg_json(r: &RunCfg) -> Value {
    json!({"entropy_seed": r.entropy_seed.to_string(), "extra_env": r.extra_env.iter().map(|(k, v)| json!([k, v])).collect::<Vec<_>>()})
}

/// Build the dependencies of the tier-R crates (o2o, o2o-impl, the o2o-macros dylib, syn ...)
/// ahead of time, without the shim.  Part of `./check build`.
pub fn prepare(cfg: &Cfg) -> Result<(), String> {
    let base = cfg.build_dir.join("rustc-tier");
    for backend in [Backend::Syn1, Backend::Syn2] {
        let dir = base.join(format!("{}-prep", backend.tag()));
        let target = base.join(format!("target-{}", backend.tag()));
        setup_crate(&dir, &cfg.repo, backend, &["#[map(PrepDto)]\npub struct Prep { pub x: i32 }\npub struct PrepDto { pub x: i32 }\n".to_string()])?;
        let out = cargo_cmd(&dir, &target, None).args(["build", "--offline", "-q"]).output().map_err(|e| format!("cargo: {}", e))?;
        if !out.status.success() {
            return Err(format!("tier-R dependency build failed ({}): {}", backend.tag(), String::from_utf8_lossy(&out.stderr).lines().filter(|l| l.starts_with("error")).take(5).collect::<Vec<_>>().join(" / ")));
        }
        // ... against the copy of the macro's sources
        let repo_b = cfg.build_dir.join("repo-b");
        if repo_b.join("Cargo.toml").exists() {
            let db = base.join(format!("{}-prep-b", backend.tag()));
            if setup_crate_files(&db, &repo_b, backend, &crate_source(&["#[map(PrepDto)]\npub struct Prep { pub x: i32 }\npub struct PrepDto { pub x: i32 }\n".to_string()]), &[], false).is_ok() {
                let _ = cargo_cmd(&db, &target, None).args(["build", "--offline", "-q"]).output();
            }
        }
        // the same for the other package / other toolchain (a failure here is not fatal: the run falls back)
        if other_toolchain().is_some() {
            let alt = base.join(format!("{}-prep-alt", backend.tag()));
            let lib = "#![allow(warnings)]\nextern crate mapper as o2o;\npub mod m0 {\nuse o2o::o2o;\n#[derive(o2o)]\n#[map(PrepDto)]\npub struct Prep { pub x: i32 }\npub struct PrepDto { pub x: i32 }\n}\n";
            if setup_crate_files(&alt, &cfg.repo, backend, lib, &[], true).is_ok() {
                let _ = cargo_cmd(&alt, &target, None).args(["build", "--offline", "-q"]).output();
            }
        }
    }
    Ok(())
}

pub fn run(cfg: &Cfg, corpus: &Corpus) -> Result<TierResult, String> {
    let t0 = std::time::Instant::now();
    let sel = select_items(cfg, corpus)?;
    let shim = cfg.build_dir.join("simhost-min.so");
    let base = cfg.build_dir.join("rustc-tier");
    let thorough = cfg.tier == "thorough";
    let n_runs: usize = std::env::var("SIM_RUSTC_RUNS").ok().and_then(|s| s.parse().ok()).unwrap_or(if thorough { 8 } else { 2 });
    let runs = plan_runs(cfg.seed, n_runs, &corpus.dict_env);
    // the two back-ends are compiled in parallel (they have target directories of their own)
    let per_backend = |backend: Backend| -> Result<(Vec<Value>, Option<(String, PathBuf)>, usize), String> {
        let mut summary = Vec::new();
        let mut violation: Option<(String, PathBuf)> = None;
        let mut compiles = 0usize;
        // the panicking inputs ride in the `rej` crate: both only produce diagnostics
        let mut rej_items = sel.rej.clone();
        rej_items.extend(sel.pan.iter().cloned());
        for (kind, items0) in [("rej", &rej_items), ("acc", &sel.acc)] {
            if items0.is_empty() {
                continue;
            }
            let dir = base.join(format!("{}-{}", backend.tag(), kind));
            let target = base.join(format!("target-{}", backend.tag()));
            let pruned: Vec<String>;
            let items: &Vec<String> = if kind == "acc" {
                pruned = prune_acc(&dir, &target, &cfg.repo, backend, items0)?;
                &pruned
            } else {
                items0
            };
            setup_crate(&dir, &cfg.repo, backend, items)?;
            let _ = std::fs::remove_dir_all(dir.join("tmp"));
            // dependencies (incl. the o2o-macros dylib) are built without the shim, so that a
            // fixed entropy stream never meets concurrently running rustc processes
            let _ = cargo_cmd(&dir, &target, None).args(["build", "--offline", "-q"]).output();
            let mut reference: Option<String> = None;
            let mut equal = 0;
            for rc in &runs {
                let r = if kind == "rej" { render_rej(&dir, &target, &shim, rc)? } else { render_acc(&dir, &target, &shim, rc)? };
                compiles += 1;
                match &reference {
                    None => reference = Some(r),
                    Some(x) if *x == r => equal += 1,
                    Some(x) => {
                        if violation.is_none() {
                            let fd = first_diff(x, &r);
                            let path = cfg.verif.join("replays").join(format!("C19-{}-rustc-{}-{}.json", cfg.seed, backend.tag(), kind));
                            let _ = std::fs::create_dir_all(cfg.verif.join("replays"));
                            let v = json!({
                                "property": "C19", "kind": "rustc_tier",
                                "what": "real cargo/rustc with the real o2o-macros dylib produced different output for the same crate on two simulated hosts",
                                "backend": backend.tag(), "crate_kind": kind, "repo": cfg.repo.to_string_lossy(),
                                "lib_rs": crate_source(items),
                                "reference_run": runcfg_json(&runs[0]), "faulty_run": runcfg_json(rc),
                                "first_diff": fd,
                            });
                            std::fs::write(&path, serde_json::to_string_pretty(&v).unwrap()).map_err(|e| e.to_string())?;
                            violation = Some((format!("{}-{}: {}", backend.tag(), kind, fd), path));
                        }
                    },
                }
            }
            // one process, the same item twice: tokens and hygiene of the two expansions
            let mut duplicates_equal = json!(null);
            if kind == "acc" {
                if let Some(x) = &reference {
                    let d = hygiene_of_duplicates(x, items.len());
                    duplicates_equal = json!(d.is_none());
                    if let (Some((i, fd)), true) = (d, violation.is_none()) {
                        let path = cfg.verif.join("replays").join(format!("C19-{}-rustc-{}-{}-twice.json", cfg.seed, backend.tag(), kind));
                        let _ = std::fs::create_dir_all(cfg.verif.join("replays"));
                        let v = json!({
                            "property": "C19", "kind": "rustc_tier", "same_item_twice": true,
                            "what": format!("one rustc process expanded item {} twice (modules m{} and d{} of the same crate) and the two expansions differ in tokens or in hygiene (syntax contexts renumbered by first appearance)", i, i, i),
                            "backend": backend.tag(), "crate_kind": kind, "repo": cfg.repo.to_string_lossy(),
                            "lib_rs": crate_source(items), "n_items": items.len(),
                            "reference_run": runcfg_json(&runs[0]), "faulty_run": runcfg_json(&runs[0]),
                            "first_diff": fd,
                        });
                        std::fs::write(&path, serde_json::to_string_pretty(&v).unwrap()).map_err(|e| e.to_string())?;
                        violation = Some((format!("{}-{} (same item twice in one process): {}", backend.tag(), kind, fd), path));
                    }
                }
            }
            // the same crate, same package, same toolchain, same run configuration -- built against
            // the *copy* of the macro's sources that lives in another directory (what two users, two
            // CI runners, a vendored and a registry checkout differ in): compared strictly
            let repo_b = cfg.build_dir.join("repo-b");
            let mut copy_equal = json!(null);
            if let (Some(x), true) = (&reference, repo_b.join("Cargo.toml").exists()) {
                let dir_b = base.join(format!("{}-{}-b", backend.tag(), kind));
                setup_crate_files(&dir_b, &repo_b, backend, &crate_source(items), &[], false)?;
                let rc = &runs[0];
                let r = if kind == "rej" { render_rej(&dir_b, &target, &shim, rc)? } else { render_acc(&dir_b, &target, &shim, rc)? };
                compiles += 1;
                copy_equal = json!(*x == r);
                if *x != r && violation.is_none() {
                    let fd = first_diff(x, &r);
                    let path = cfg.verif.join("replays").join(format!("C19-{}-rustc-{}-{}-copy.json", cfg.seed, backend.tag(), kind));
                    let _ = std::fs::create_dir_all(cfg.verif.join("replays"));
                    let v = json!({
                        "property": "C19", "kind": "rustc_tier", "copy_of_macro_sources": true,
                        "what": "real cargo/rustc produced different output for the same crate when the macro was built from a copy of its sources in another directory",
                        "backend": backend.tag(), "crate_kind": kind, "repo": cfg.repo.to_string_lossy(),
                        "lib_rs": crate_source(items),
                        "reference_run": runcfg_json(&runs[0]), "faulty_run": runcfg_json(rc),
                        "first_diff": fd,
                    });
                    std::fs::write(&path, serde_json::to_string_pretty(&v).unwrap()).map_err(|e| e.to_string())?;
                    violation = Some((format!("{}-{} (macro built from a copy of its sources): {}", backend.tag(), kind, fd), path));
                }
            }
            // history fault: the same modules in reverse source order (rustc expands derives in
            // source order, all in one process), compared module by module
            let mut permuted_equal = json!(null);
            if let Some(ref_r) = &reference {
                let original = crate_source(items);
                let order: Vec<usize> = (0..items.len()).rev().collect();
                // ... each item in other surroundings (nested module, function body, macro_rules expansion)
                let (reversed, extra_files) = crate_source_surroundings(items, &order);
                // ... compiled as a *different package* (other name, version, edition, manifest
                // directory), sharing the temp dir of the runs above
                let alt_dir = base.join(format!("{}-{}-alt", backend.tag(), kind));
                setup_crate_files(&alt_dir, &cfg.repo, backend, &reversed, &extra_files, true)?;
                let _ = std::fs::remove_dir_all(alt_dir.join("tmp"));
                let rc = &runs[runs.len() - 1];
                // (without hygiene annotations: which tokens get one differs between toolchains -- nightly
                // annotates attribute arguments, stable does not -- so across this run's toolchains the
                // annotations are not comparable; hygiene is compared inside one run, on the duplicates)
                let r = if kind == "rej" { render_rej(&alt_dir, &target, &shim, rc) } else { render_acc_mode(&alt_dir, &target, &shim, rc, false) };
                let r = r?;
                compiles += 1;
                // (for `acc` both layouts are rendered without hygiene annotations, under the same run configuration)
                let plain_ref = if kind == "acc" {
                    compiles += 1;
                    Some(render_acc_mode(&dir, &target, &shim, rc, false)?)
                } else {
                    None
                };
                // surroundings shift positions and wrap the output: messages and impl items are compared
                let (a, b) = if kind == "rej" { (normalise_rej_messages(ref_r, &original, &sel.o2o_messages), normalise_rej_messages(&r, &reversed, &sel.o2o_messages)) } else {
                    // (output that does not lex as Rust cannot be compared token by token: reported, never an alarm)
                    match (normalise_acc_modules(plain_ref.as_ref().unwrap()), normalise_acc_modules(&r)) {
                        (Some(a), Some(b)) => (a, b),
                        _ => ("<unlexable>".to_string(), "<unlexable>".to_string()),
                    }
                };
                if let Ok(d) = std::env::var("SIM_DUMP_TIER_R") {
                    let _ = std::fs::write(format!("{}/{}-{}-ref.txt", d, backend.tag(), kind), &a);
                    let _ = std::fs::write(format!("{}/{}-{}-alt.txt", d, backend.tag(), kind), &b);
                    let _ = std::fs::write(format!("{}/{}-{}-alt-raw.txt", d, backend.tag(), kind), &r);
                }
                if a == "<unlexable>" {
                    return Err(format!("tier R: the expanded output of the {} acc crate could not be split into modules; nothing would have been compared", backend.tag()));
                }
                permuted_equal = if a == "<unlexable>" { json!("not compared: rustc's expanded output did not lex") } else { json!(a == b) };
                if a != b && violation.is_none() {
                    let fd = first_diff(&a, &b);
                    let path = cfg.verif.join("replays").join(format!("C19-{}-rustc-{}-{}-order.json", cfg.seed, backend.tag(), kind));
                    let _ = std::fs::create_dir_all(cfg.verif.join("replays"));
                    let v = json!({
                        "property": "C19", "kind": "rustc_tier", "permuted": true,
                        "what": "real cargo/rustc with the real o2o-macros dylib expanded the same items differently when the crate was compiled as another package (name, version, edition, manifest directory) with another toolchain (if installed), the dependency renamed in the manifest, its modules in reversed source order and every item in other surroundings (nested module, function body, macro_rules expansion in the same or from another file) (all derives of a crate run in one rustc process, in source order)",
                        "backend": backend.tag(), "crate_kind": kind, "repo": cfg.repo.to_string_lossy(),
                        "lib_rs": original, "lib_rs_permuted": reversed, "extra_files": extra_files.iter().map(|(n, c)| json!([n, c])).collect::<Vec<_>>(), "o2o_messages": sel.o2o_messages.iter().cloned().collect::<Vec<_>>(),
                        "reference_run": runcfg_json(&runs[0]), "faulty_run": runcfg_json(rc),
                        "first_diff": fd,
                    });
                    std::fs::write(&path, serde_json::to_string_pretty(&v).unwrap()).map_err(|e| e.to_string())?;
                    violation = Some((format!("{}-{} (reversed source order): {}", backend.tag(), kind, fd), path));
                }
            }
            let lines = reference.as_ref().map(|r| r.lines().count()).unwrap_or(0);
            summary.push(json!({"backend": backend.tag(), "crate": kind, "items": items.len(), "runs": runs.len(), "runs_equal_to_first": equal, "same_item_twice_in_one_process_equal_incl_hygiene": duplicates_equal, "macro_built_from_a_copy_of_its_sources_equal": copy_equal, "other_package_identity_and_reversed_source_order_equal_module_by_module": permuted_equal, "rendering_lines": lines}));
        }
            Ok((summary, violation, compiles))
    };
    let (r1, r2) = std::thread::scope(|sc| {
        let h1 = sc.spawn(|| per_backend(Backend::Syn1));
        let h2 = sc.spawn(|| per_backend(Backend::Syn2));
        (h1.join().unwrap_or_else(|_| Err("tier R thread panicked".to_string())), h2.join().unwrap_or_else(|_| Err("tier R thread panicked".to_string())))
    });
    let mut summary = Vec::new();
    let mut violation = None;
    let mut more = Vec::new();
    let mut compiles = 0;
    for r in [r1, r2] {
        let (s, v, c) = r?;
        summary.extend(s);
        if let Some(v) = v {
            if violation.is_none() {
                violation = Some(v);
            } else {
                more.push(v);
            }
        }
        compiles += c;
    }
    Ok(TierResult {
        json: json!({
            "ran": true, "cargo_invocations_under_shim": compiles, "other_package_built_by_toolchain": other_toolchain().unwrap_or("(the same: no second toolchain installed)"), "entropy_seeds": runs.iter().map(|r| r.entropy_seed).collect::<Vec<_>>(),
            "runs_with_noisy_env": runs.iter().filter(|r| !r.extra_env.is_empty()).count(),
            "candidates_classified": sel.candidates, "rejected_items": sel.rej.len(), "panicking_items": sel.pan.len(), "accepted_items": sel.acc.len(),
            "crates": summary, "wall_s": t0.elapsed().as_secs_f64(),
        }),
        violation,
        more,
    })
}

pub fn replay(cfg: &Cfg, v: &Value, path: &Path) -> i32 {
    let Some(backend) = v["backend"].as_str().and_then(Backend::parse) else { return 2 };
    let kind = v["crate_kind"].as_str().unwrap_or("rej").to_string();
    let parse_rc = |x: &Value| -> Option<RunCfg> {
        Some(RunCfg { entropy_seed: x["entropy_seed"].as_str()?.parse().ok()?, extra_env: x["extra_env"].as_array()?.iter().filter_map(|e| Some((e[0].as_str()?.to_string(), e[1].as_str()?.to_string()))).collect() })
    };
    let (Some(a), Some(b)) = (parse_rc(&v["reference_run"]), parse_rc(&v["faulty_run"])) else { return 2 };
    let shim = cfg.build_dir.join("simhost-min.so");
    let base = cfg.build_dir.join("rustc-tier-replay");
    let dir = base.join(format!("{}-{}", backend.tag(), kind));
    let target = base.join(format!("target-{}", backend.tag()));
    let manifest_items: Vec<String> = vec![];
    if setup_crate(&dir, &cfg.repo, backend, &manifest_items).is_err() {
        return 2;
    }
    write_if_changed(&dir.join("src/lib.rs"), v["lib_rs"].as_str().unwrap_or(""));
    let _ = cargo_cmd(&dir, &target, None).args(["build", "--offline", "-q"]).output();
    if v["same_item_twice"].as_bool().unwrap_or(false) {
        if setup_crate_as(&dir, &cfg.repo, backend, v["lib_rs"].as_str().unwrap_or(""), false).is_err() {
            return 2;
        }
        return match render_acc(&dir, &target, &shim, &a) {
            Ok(x) => match hygiene_of_duplicates(&x, v["n_items"].as_u64().unwrap_or(6) as usize) {
                Some((i, fd)) => {
                    println!("replay (rustc tier, same item twice in one process): item {}: {}", i, fd);
                    println!("VIOLATION property=C19 replay={}", path.display());
                    1
                },
                None => {
                    println!("replay (rustc tier): no longer reproduces");
                    0
                },
            },
            Err(e) => {
                eprintln!("harness error: {}", e);
                2
            },
        };
    }
    if v["copy_of_macro_sources"].as_bool().unwrap_or(false) {
        let dir_b = base.join(format!("{}-{}-b", backend.tag(), kind));
        let repo_b = cfg.build_dir.join("repo-b");
        if setup_crate_files(&dir_b, &repo_b, backend, v["lib_rs"].as_str().unwrap_or(""), &[], false).is_err() {
            return 2;
        }
        let f = |d: &Path, rc: &RunCfg| if kind == "rej" { render_rej(d, &target, &shim, rc) } else { render_acc(d, &target, &shim, rc) };
        return match (f(&dir, &a), f(&dir_b, &a)) {
            (Ok(x), Ok(y)) => {
                if x != y {
                    println!("replay (rustc tier, macro built from a copy of its sources): outputs differ: {}", first_diff(&x, &y));
                    println!("VIOLATION property=C19 replay={}", path.display());
                    1
                } else {
                    println!("replay (rustc tier): no longer reproduces");
                    0
                }
            },
            (Err(e), _) | (_, Err(e)) => {
                eprintln!("harness error: {}", e);
                2
            },
        };
    }
    let permuted = v["permuted"].as_bool().unwrap_or(false);
    let f = |rc: &RunCfg| if kind == "rej" { render_rej(&dir, &target, &shim, rc) } else { render_acc_mode(&dir, &target, &shim, rc, !permuted) };
    let ra = if permuted { f(&b) } else { f(&a) };
    let rb = if permuted {
        let original = v["lib_rs"].as_str().unwrap_or("").to_string();
        let reversed = v["lib_rs_permuted"].as_str().unwrap_or("").to_string();
        let msgs: std::collections::BTreeSet<String> = v["o2o_messages"].as_array().map(|a| a.iter().filter_map(|x| x.as_str().map(|s| s.to_string())).collect()).unwrap_or_default();
        let alt_dir = base.join(format!("{}-{}-alt", backend.tag(), kind));
        let extra_files: Vec<(String, String)> = v["extra_files"].as_array().map(|a| a.iter().filter_map(|x| Some((x[0].as_str()?.to_string(), x[1].as_str()?.to_string()))).collect()).unwrap_or_default();
        if setup_crate_files(&alt_dir, &cfg.repo, backend, &reversed, &extra_files, true).is_err() {
            return 2;
        }
        let r = if kind == "rej" { render_rej(&alt_dir, &target, &shim, &b) } else { render_acc_mode(&alt_dir, &target, &shim, &b, false) };
        match (ra, r) {
            (Ok(x), Ok(y)) => {
                let (x, y) = if kind == "rej" { (normalise_rej_messages(&x, &original, &msgs), normalise_rej_messages(&y, &reversed, &msgs)) } else { match (normalise_acc_modules(&x), normalise_acc_modules(&y)) { (Some(a), Some(b)) => (a, b), _ => (String::new(), String::new()) } };
                return if x != y {
                    println!("replay (rustc tier, reversed source order): outputs differ: {}", first_diff(&x, &y));
                    println!("VIOLATION property=C19 replay={}", path.display());
                    1
                } else {
                    println!("replay (rustc tier): no longer reproduces");
                    0
                };
            },
            (Err(e), _) | (_, Err(e)) => {
                eprintln!("harness error: {}", e);
                return 2;
            },
        }
    } else {
        f(&b)
    };
    match (ra, rb) {
        (Ok(x), Ok(y)) => {
            if x != y {
                println!("replay (rustc tier): outputs differ: {}", first_diff(&x, &y));
                println!("VIOLATION property=C19 replay={}", path.display());
                1
            } else {
                println!("replay (rustc tier): no longer reproduces");
                0
            }
        },
        (Err(e), _) | (_, Err(e)) => {
            eprintln!("harness error: {}", e);
            2
        },
    }
}
