//! Tier R (thorough): real cargo + rustc + the real o2o-macros dylib under the shim.
use crate::corpus::Corpus;
use crate::Cfg;
use serde_json::{json, Value};
use std::path::PathBuf;

pub struct TierResult {
    pub json: Value,
    pub violation: Option<(String, PathBuf)>,
}

pub fn run(_cfg: &Cfg, _corpus: &Corpus) -> Result<TierResult, String> {
    Ok(TierResult { json: json!({"ran": false, "note": "not built yet"}), violation: None })
}
