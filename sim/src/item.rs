//! A derive input in a shape the generator, the misuse injector and the minimiser can all
//! edit: a list of type-level attributes, a header, and a list of members each with its own
//! attribute list.  `render` turns it into the text that is handed to every simulated host.

use quote::ToTokens;

#[derive(Clone, Copy, PartialEq, Eq, Debug)]
pub enum Shape {
    Named,
    Tuple,
    Unit,
}

#[derive(Clone, Debug)]
pub struct Member {
    /// complete attributes, e.g. `#[map(Entity| x)]`
    pub attrs: Vec<String>,
    /// struct field: `a: i32` / `i32`; enum variant: `V`, `V(i32, String)`, `V { a: i32 }`
    /// (attributes on a variant's own fields are part of this string)
    pub decl: String,
}

#[derive(Clone, Debug)]
pub struct Item {
    pub type_attrs: Vec<String>,
    pub is_enum: bool,
    pub name: String,
    /// `<T, U>` or empty
    pub generics: String,
    /// `where T: Clone` or empty
    pub where_clause: String,
    pub shape: Shape,
    pub members: Vec<Member>,
    /// workload class and provenance, for reports only
    pub origin: String,
    /// if set, the item is this text verbatim (shapes the model above cannot express, e.g. unions)
    pub raw: Option<String>,
}

impl Item {
    pub fn render(&self) -> String {
        if let Some(r) = &self.raw {
            return r.clone();
        }
        let mut s = String::new();
        for a in &self.type_attrs {
            s.push_str(a);
            s.push('\n');
        }
        let kw = if self.is_enum { "enum" } else { "struct" };
        // visibility is part of a derive input too; derived from the name so that it is stable
        let vis = match self.name.len() % 3 {
            0 => "pub ",
            1 => "",
            _ => "pub(crate) ",
        };
        s.push_str(&format!("{}{} {}{}", vis, kw, self.name, self.generics));
        let members = |s: &mut String, open: char, close: char| {
            s.push(' ');
            s.push(open);
            s.push('\n');
            for m in &self.members {
                for a in &m.attrs {
                    s.push_str("    ");
                    s.push_str(a);
                    s.push('\n');
                }
                s.push_str("    ");
                s.push_str(&m.decl);
                s.push_str(",\n");
            }
            s.push(close);
        };
        if self.is_enum {
            if !self.where_clause.is_empty() {
                s.push(' ');
                s.push_str(&self.where_clause);
            }
            members(&mut s, '{', '}');
        } else {
            match self.shape {
                Shape::Named => {
                    if !self.where_clause.is_empty() {
                        s.push(' ');
                        s.push_str(&self.where_clause);
                    }
                    members(&mut s, '{', '}');
                },
                Shape::Tuple => {
                    members(&mut s, '(', ')');
                    if !self.where_clause.is_empty() {
                        s.push(' ');
                        s.push_str(&self.where_clause);
                    }
                    s.push(';');
                },
                Shape::Unit => {
                    if !self.where_clause.is_empty() {
                        s.push(' ');
                        s.push_str(&self.where_clause);
                    }
                    s.push(';');
                },
            }
        }
        s.push('\n');
        s
    }

    pub fn n_attrs(&self) -> usize {
        self.type_attrs.len() + self.members.iter().map(|m| m.attrs.len()).sum::<usize>()
    }
}

fn is_derive(a: &syn::Attribute) -> bool {
    a.path().is_ident("derive")
}

fn attr_text(a: &syn::Attribute) -> String {
    a.to_token_stream().to_string()
}

/// Convert a parsed derive input (attributes other than `#[derive]` are kept, as rustc keeps them).
pub fn from_derive_input(di: &syn::DeriveInput, origin: &str) -> Option<Item> {
    let type_attrs: Vec<String> = di.attrs.iter().filter(|a| !is_derive(a)).map(attr_text).collect();
    let generics = {
        let g = &di.generics;
        if g.params.is_empty() {
            String::new()
        } else {
            let p = &g.params;
            format!("<{}>", p.to_token_stream())
        }
    };
    let where_clause = di.generics.where_clause.as_ref().map(|w| w.to_token_stream().to_string()).unwrap_or_default();
    let field_member = |f: &syn::Field| -> Member {
        let attrs = f.attrs.iter().filter(|a| !is_derive(a)).map(attr_text).collect();
        let mut bare = f.clone();
        bare.attrs.clear();
        Member { attrs, decl: bare.to_token_stream().to_string() }
    };
    match &di.data {
        syn::Data::Struct(ds) => {
            let (shape, members) = match &ds.fields {
                syn::Fields::Named(n) => (Shape::Named, n.named.iter().map(field_member).collect()),
                syn::Fields::Unnamed(u) => (Shape::Tuple, u.unnamed.iter().map(field_member).collect()),
                syn::Fields::Unit => (Shape::Unit, vec![]),
            };
            Some(Item { type_attrs, is_enum: false, name: di.ident.to_string(), generics, where_clause, shape, members, origin: origin.to_string(), raw: None })
        },
        syn::Data::Enum(de) => {
            let members = de
                .variants
                .iter()
                .map(|v| {
                    let attrs = v.attrs.iter().filter(|a| !is_derive(a)).map(attr_text).collect();
                    let mut bare = v.clone();
                    bare.attrs.clear();
                    Member { attrs, decl: bare.to_token_stream().to_string() }
                })
                .collect();
            Some(Item { type_attrs, is_enum: true, name: di.ident.to_string(), generics, where_clause, shape: Shape::Named, members, origin: origin.to_string(), raw: None })
        },
        syn::Data::Union(_) => None,
    }
}
