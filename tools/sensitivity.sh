#!/usr/bin/env bash
# tools/sensitivity.sh [--tests] [--rustc-tier] [--tier quick|thorough] <patch.diff>...
# (by default only the simulated-host tier is run against the patched tree; --rustc-tier adds the end-to-end tier)
#
# For every patch: make a scratch worktree of /repo outside /repo and /verif, apply the
# patch, run the C19 check against it (O2O_REPO=<scratch>), print one result line, and
# remove the worktree and its build area again.  With --tests the pinned test suite is run
# on the patched tree first (a seeded change is only realistic if the suite still passes).
# Expected: every patch in mutants/ and seeded/*/patch.diff -> exit 1 (caught).
set -u
VERIF="$(cd "$(dirname "${BASH_SOURCE[0]}")/.." && pwd)"
TESTS=0; TIER=quick; RUSTC=--no-rustc-tier; PATCHES=()
while [ $# -gt 0 ]; do
  case "$1" in
    --tests) TESTS=1; shift;;
    --rustc-tier) RUSTC=; shift;;
    --tier) TIER="$2"; shift 2;;
    *) PATCHES+=("$1"); shift;;
  esac
done
rc_all=0
for p in "${PATCHES[@]}"; do
  p="$(realpath "$p")"
  name="$(basename "$(dirname "$p")")-$(basename "$p" .diff)"; name="${name#mutants-}"
  wt="$(mktemp -d /tmp/sens-XXXXXX)"; rmdir "$wt"
  git -C /repo worktree add -q --detach "$wt" HEAD || { echo "$name: worktree failed"; rc_all=2; continue; }
  if ! git -C "$wt" apply "$p" 2>/tmp/sens-apply.err; then
    echo "$name: PATCH DOES NOT APPLY: $(head -1 /tmp/sens-apply.err)"; rc_all=2
    git -C /repo worktree remove --force "$wt"; continue
  fi
  tests="-"
  if [ "$TESTS" = 1 ]; then
    if ( cd "$wt" && CARGO_NET_OFFLINE=true cargo nextest run --workspace --no-fail-fast --offline --test-threads 16 >"$wt/.tests.log" 2>&1 ); then
      tests="suite-passes($(grep -oE '[0-9]+ passed' "$wt/.tests.log" | tail -1))"
    else
      tests="SUITE-FAILS($(grep -oE '[0-9]+ failed' "$wt/.tests.log" | tail -1))"
    fi
  fi
  out="$(O2O_REPO="$wt" "$VERIF/check" C19 --tier "$TIER" --evidence "$wt/.evidence.json" $RUSTC 2>&1)"; rc=$?
  sig="$(printf '%s\n' "$out" | grep -m1 '^violation' | cut -c1-230)"
  nviol="$(printf '%s\n' "$out" | grep -c '^VIOLATION')"
  case $rc in
    1) verdict=CAUGHT;;
    0) verdict=MISSED; rc_all=1;;
    *) verdict="HARNESS-ERROR($rc)"; rc_all=2; printf '%s\n' "$out" | tail -5;;
  esac
  echo "$name: $verdict tests=$tests violations=$nviol :: $sig"
  # replay files written for the scratch tree are not evidence about /repo
  printf '%s\n' "$out" | grep -oE 'replay=[^ ]+' | cut -d= -f2 | while read -r f; do rm -f "$f"; done
  key="alt-$(printf '%s' "$wt" | cksum | cut -d' ' -f1)"
  rm -rf "$VERIF/build/$key"
  git -C /repo worktree remove --force "$wt"
done
exit $rc_all
