#!/usr/bin/env bash
# tools/coverage.sh [n_inputs_per_class]
# Development aid (not part of any check): which lines of o2o-impl does the C19 workload
# reach?  Builds the syn1 plain host with -C instrument-coverage on the nightly toolchain
# (the one that ships llvm-cov), expands N generated inputs of every workload class in it,
# and prints the uncovered lines of ast.rs / attr.rs / expand.rs / validate.rs.
set -eu
VERIF="$(cd "$(dirname "${BASH_SOURCE[0]}")/.." && pwd)"
N="${1:-400}"
export CARGO_NET_OFFLINE=true
"$VERIF/check" build >/dev/null
B="$VERIF/build/cov"; mkdir -p "$B/host"
sed -e "s|@REPO@|/repo|g" -e "s|@VERIF@|$VERIF|g" -e "s|@VARIANT@|cov|g" -e "s|@IMPL_FEATURE@|syn|g" \
    -e 's|@SYN_DEP@|syn = { package = "syn", version = "1.0.3" }|g' -e "s|@DEFAULT_FEATURES@||g" "$VERIF/host/Cargo.toml.in" > "$B/host/Cargo.toml"
cp /repo/Cargo.lock "$B/host/Cargo.lock"
( cd "$B/host" && RUSTFLAGS="-C instrument-coverage" CARGO_TARGET_DIR="$B/target" cargo +nightly build --offline -q 2>"$B/build.log" )
TOOLS="$(dirname "$(find ~/.rustup/toolchains/nightly-x86_64-unknown-linux-gnu -name llvm-cov | head -1)")"
rm -f "$B"/*.profraw
# the driver's genstats sub-command runs one host per class; point it at the instrumented binary
mkdir -p "$B/fake/target-syn1-hooked/debug" "$B/fake/target-syn1-plain/debug" "$B/fake/target-syn2-plain/debug"
for v in syn1-hooked syn1-plain syn2-plain; do cp "$B/target/debug/simhost" "$B/fake/target-$v/debug/simhost"; done
cp "$VERIF/build/repo/simhost.so" "$B/fake/simhost.so"
LLVM_PROFILE_FILE="$B/cov-%p.profraw" SIM_BUILD_DIR="$B/fake" SIM_KEEP_ENV=LLVM_PROFILE_FILE "$VERIF/build/driver/release/driver" genstats --worlds "$N" >"$B/genstats.txt"
"$TOOLS/llvm-profdata" merge -sparse "$B"/*.profraw -o "$B/cov.profdata"
"$TOOLS/llvm-cov" report "$B/target/debug/simhost" -instr-profile="$B/cov.profdata" /repo/o2o-impl/src/ast.rs /repo/o2o-impl/src/attr.rs /repo/o2o-impl/src/expand.rs /repo/o2o-impl/src/validate.rs 2>/dev/null | cut -c1-200
"$TOOLS/llvm-cov" show "$B/target/debug/simhost" -instr-profile="$B/cov.profdata" /repo/o2o-impl/src/ast.rs /repo/o2o-impl/src/attr.rs /repo/o2o-impl/src/expand.rs /repo/o2o-impl/src/validate.rs --show-line-counts-or-regions 2>/dev/null > "$B/show.txt"
echo "--- uncovered lines (count 0):"
awk '/^\/repo/{f=$0} /^ *[0-9]+\| *0\|/{print f ": " $0}' "$B/show.txt" | cut -c1-220
