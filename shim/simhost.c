/*
 * simhost.so -- LD_PRELOAD interposer that turns a process into a *simulated build host*.
 *
 * Every libc entry point through which a Rust program (or rustc running a proc-macro
 * dylib) can observe its environment is answered from values the simulation driver
 * chose, so that the process's view of "the machine" is an exact function of a seed:
 *
 *   getrandom        -> bytes of a splitmix64 stream seeded by SIM_ENTROPY_SEED
 *                       (std's RandomState takes its SipHash keys from here: one 16-byte
 *                       request per thread, through a weak symbol meant for interposition)
 *   getentropy       -> same stream
 *   clock_gettime / gettimeofday / time
 *                    -> SIM_CLOCK_EPOCH_NS + SIM_CLOCK_STEP_NS * (number of reads so far)
 *   getpid           -> SIM_PID
 *   getenv / secure_getenv
 *                    -> the real (driver-built) environment block, but every lookup made
 *                       while an expansion is running is counted and its name recorded
 *
 * Reads made between sim_mark(1) and sim_mark(0) (the host brackets each expansion with
 * them) are counted separately: those are the "did the system under test look at this
 * source of nondeterminism" probes reported in the evidence file.
 *
 * If SIM_ENTROPY_SEED is not set the entropy functions fall through to the kernel, and
 * likewise for the clock (SIM_CLOCK_EPOCH_NS) and pid (SIM_PID): a *control* host can
 * thus be run with individual seams switched off.
 *
 * No locking: the simulated host runs exactly one thread at a time (the harness parks
 * all others), and under rustc the proc-macro runs on one thread.  Counters are plain
 * integers on purpose -- a torn update could only corrupt a statistic, never the
 * verdict, and the byte stream position is advanced with an atomic add.
 */
#define _GNU_SOURCE
#include <errno.h>
#include <stdint.h>
#include <stdlib.h>
#include <string.h>
#include <sys/syscall.h>
#include <sys/time.h>
#include <sys/types.h>
#include <time.h>
#include <unistd.h>

extern char **environ;

static int g_init;
static int g_have_entropy, g_have_clock, g_have_pid;
static uint64_t g_entropy_seed;
static uint64_t g_entropy_pos;      /* 8-byte words handed out so far */
static int64_t g_clock_epoch_ns, g_clock_step_ns;
static uint64_t g_clock_reads;
static long g_pid;

static int g_in_expansion;

/* counters: [0]=getrandom calls [1]=getrandom calls in expansion [2]=bytes
 *           [3]=clock reads      [4]=clock reads in expansion
 *           [5]=getenv calls     [6]=getenv calls in expansion
 *           [7]=getpid calls     [8]=getpid calls in expansion */
static uint64_t g_cnt[16];

#define NAMES_CAP 2048
static char g_names[NAMES_CAP]; /* ';'-separated names of env vars looked up in expansions */
static size_t g_names_len;

static const char *raw_getenv(const char *name) {
    size_t n = strlen(name);
    if (!environ) return NULL;
    for (char **e = environ; *e; e++)
        if (strncmp(*e, name, n) == 0 && (*e)[n] == '=') return *e + n + 1;
    return NULL;
}

static void init(void) {
    if (g_init) return;
    g_init = 1;
    const char *s;
    if ((s = raw_getenv("SIM_ENTROPY_SEED"))) { g_have_entropy = 1; g_entropy_seed = strtoull(s, NULL, 10); }
    /* start the stream at word N: lets the driver hand the main thread the keys that the
     * k-th thread of another run received */
    if ((s = raw_getenv("SIM_ENTROPY_SKIP"))) g_entropy_pos = strtoull(s, NULL, 10);
    if ((s = raw_getenv("SIM_CLOCK_EPOCH_NS"))) {
        g_have_clock = 1;
        g_clock_epoch_ns = strtoll(s, NULL, 10);
        const char *st = raw_getenv("SIM_CLOCK_STEP_NS");
        g_clock_step_ns = st ? strtoll(st, NULL, 10) : 1;
    }
    if ((s = raw_getenv("SIM_PID"))) { g_have_pid = 1; g_pid = strtol(s, NULL, 10); }
}

static uint64_t splitmix64(uint64_t x) {
    x += 0x9E3779B97F4A7C15ULL;
    x = (x ^ (x >> 30)) * 0xBF58476D1CE4E5B9ULL;
    x = (x ^ (x >> 27)) * 0x94D049BB133111EBULL;
    return x ^ (x >> 31);
}

static void fill(void *buf, size_t len) {
    unsigned char *p = buf;
    while (len > 0) {
        uint64_t pos = __atomic_fetch_add(&g_entropy_pos, 1, __ATOMIC_SEQ_CST);
        uint64_t w = splitmix64(g_entropy_seed * 0x100000001B3ULL + pos);
        size_t n = len < 8 ? len : 8;
        memcpy(p, &w, n);
        p += n;
        len -= n;
    }
}

ssize_t getrandom(void *buf, size_t len, unsigned int flags) {
    init();
    g_cnt[0]++;
    if (g_in_expansion) g_cnt[1]++;
    g_cnt[2] += len;
    if (!g_have_entropy) return syscall(SYS_getrandom, buf, len, flags);
    fill(buf, len);
    return (ssize_t)len;
}

int getentropy(void *buf, size_t len) {
    init();
    if (len > 256) { errno = EIO; return -1; }
    g_cnt[0]++;
    if (g_in_expansion) g_cnt[1]++;
    g_cnt[2] += len;
    if (!g_have_entropy) return syscall(SYS_getrandom, buf, len, 0) == (long)len ? 0 : -1;
    fill(buf, len);
    return 0;
}

static int64_t sim_now_ns(void) {
    g_cnt[3]++;
    if (g_in_expansion) g_cnt[4]++;
    return g_clock_epoch_ns + g_clock_step_ns * (int64_t)(g_clock_reads++);
}

int clock_gettime(clockid_t clk, struct timespec *ts) {
    init();
    if (!g_have_clock) {
        g_cnt[3]++;
        if (g_in_expansion) g_cnt[4]++;
        return syscall(SYS_clock_gettime, clk, ts);
    }
    int64_t t = sim_now_ns();
    if (ts) { ts->tv_sec = t / 1000000000LL; ts->tv_nsec = t % 1000000000LL; }
    return 0;
}

int gettimeofday(struct timeval *restrict tv, void *restrict tz) {
    init();
    (void)tz;
    if (!g_have_clock) {
        g_cnt[3]++;
        if (g_in_expansion) g_cnt[4]++;
        return syscall(SYS_gettimeofday, tv, NULL);
    }
    int64_t t = sim_now_ns();
    if (tv) { tv->tv_sec = t / 1000000000LL; tv->tv_usec = (t % 1000000000LL) / 1000; }
    return 0;
}

time_t time(time_t *out) {
    init();
    time_t r;
    if (!g_have_clock) {
        struct timespec ts;
        g_cnt[3]++;
        if (g_in_expansion) g_cnt[4]++;
        syscall(SYS_clock_gettime, CLOCK_REALTIME, &ts);
        r = ts.tv_sec;
    } else {
        r = (time_t)(sim_now_ns() / 1000000000LL);
    }
    if (out) *out = r;
    return r;
}

pid_t getpid(void) {
    init();
    g_cnt[7]++;
    if (g_in_expansion) g_cnt[8]++;
    if (!g_have_pid) return (pid_t)syscall(SYS_getpid);
    return (pid_t)g_pid;
}

static void note_name(const char *name) {
    size_t n = strlen(name);
    /* de-duplicate */
    size_t i = 0;
    while (i < g_names_len) {
        size_t j = i;
        while (j < g_names_len && g_names[j] != ';') j++;
        if (j - i == n && memcmp(g_names + i, name, n) == 0) return;
        i = j + 1;
    }
    if (g_names_len + n + 2 >= NAMES_CAP) return;
    memcpy(g_names + g_names_len, name, n);
    g_names_len += n;
    g_names[g_names_len++] = ';';
    g_names[g_names_len] = 0;
}

char *getenv(const char *name) {
    init();
    g_cnt[5]++;
    if (g_in_expansion) { g_cnt[6]++; note_name(name); }
    return (char *)raw_getenv(name);
}

char *secure_getenv(const char *name) {
    return getenv(name);
}

/* ---- interface for the host binary (looked up with dlsym(RTLD_DEFAULT, ...)) ---- */

void sim_mark(int on) { init(); g_in_expansion = on; }

/* copies up to n counters; returns how many exist */
int sim_counters(uint64_t *out, int n) {
    init();
    int k = n < 9 ? n : 9;
    for (int i = 0; i < k; i++) out[i] = g_cnt[i];
    return 9;
}

const char *sim_env_names(void) { return g_names; }

int sim_active(void) { init(); return 1 | (g_have_entropy << 1) | (g_have_clock << 2) | (g_have_pid << 3); }
