/*
 * simhost.so -- LD_PRELOAD interposer that turns a process into a *simulated build host*.
 *
 * Every libc entry point through which a Rust program (or rustc running a proc-macro
 * dylib) can observe its environment is answered from values the simulation driver
 * chose, so that the process's view of "the machine" is an exact function of a seed:
 *
 *   getrandom        -> bytes of a splitmix64 stream seeded by SIM_ENTROPY_SEED
 *                       (std's RandomState takes its SipHash keys from here: one 16-byte
 *                       request per thread, through a weak symbol meant for interposition)
 *   getentropy       -> same stream
 *   clock_gettime / gettimeofday / time
 *                    -> SIM_CLOCK_EPOCH_NS + SIM_CLOCK_STEP_NS * (number of reads so far)
 *   getpid           -> SIM_PID
 *   getenv / secure_getenv
 *                    -> the real (driver-built) environment block, but every lookup made
 *                       while an expansion is running is counted and its name recorded
 *
 *   open / openat / fopen / stat / lstat / fstatat / statx / access / readlink / opendir
 *                    -> while an expansion is running every path is counted and recorded,
 *                       and SIM_FS_MAP may redirect it to a driver-written file or make it
 *                       absent (file-system seam; /dev/urandom and friends are redirected to
 *                       seeded bytes so that a direct read cannot bypass getrandom)
 *   (simulated disk)    with SIM_DISK_DIR set, everything an expansion *writes* (open for
 *                       writing, fopen "w"/"a", mkdir, rename, unlink) lands in that
 *                       directory under a flattened name, and later reads of the same path
 *                       -- by this or by a later host given the same directory -- see it:
 *                       durable state that survives a process, which the driver keeps
 *                       ("warm") or wipes ("cold") per host
 *   gethostname / uname / getuid / geteuid / sched_getaffinity / sysconf(_SC_NPROCESSORS_*)
 *                    -> SIM_HOSTNAME / SIM_UID / SIM_NCPU; calls during expansions recorded
 *
 * Reads made between sim_mark(1) and sim_mark(0) (the host brackets each expansion with
 * them) are counted separately: those are the "did the system under test look at this
 * source of nondeterminism" probes reported in the evidence file.
 *
 * If SIM_ENTROPY_SEED is not set the entropy functions fall through to the kernel, and
 * likewise for the clock (SIM_CLOCK_EPOCH_NS) and pid (SIM_PID): a *control* host can
 * thus be run with individual seams switched off.
 *
 * No locking: the simulated host runs exactly one thread at a time (the harness parks
 * all others), and under rustc the proc-macro runs on one thread.  Counters are plain
 * integers on purpose -- a torn update could only corrupt a statistic, never the
 * verdict, and the byte stream position is advanced with an atomic add.
 */
#define _GNU_SOURCE
#include <dirent.h>
#include <dlfcn.h>
#include <errno.h>
#include <fcntl.h>
#include <sched.h>
#include <stdarg.h>
#include <stdio.h>
#include <sys/stat.h>
#include <sys/utsname.h>
#include <stdint.h>
#include <stdlib.h>
#include <string.h>
#include <sys/syscall.h>
#include <sys/time.h>
#include <sys/types.h>
#include <time.h>
#include <unistd.h>

extern char **environ;

static int g_init;
static int g_have_entropy, g_have_clock, g_have_pid;
static uint64_t g_entropy_seed;
static uint64_t g_entropy_pos;      /* 8-byte words handed out so far */
static int64_t g_clock_epoch_ns, g_clock_step_ns;
static uint64_t g_clock_reads;
static long g_pid;

static int g_in_expansion;

/* counters: [0]=getrandom calls [1]=getrandom calls in expansion [2]=bytes
 *           [3]=clock reads      [4]=clock reads in expansion
 *           [5]=getenv calls     [6]=getenv calls in expansion
 *           [7]=getpid calls     [8]=getpid calls in expansion
 *           [9]=writes to the simulated disk during expansions */
static uint64_t g_cnt[16];

#define NAMES_CAP 2048
static char g_names[NAMES_CAP]; /* ';'-separated names of env vars looked up in expansions */
static size_t g_names_len;

/* file-system and identity seam */
static char g_fs_names[NAMES_CAP]; /* ';'-separated paths / "call:<fn>" touched in expansions */
static size_t g_fs_names_len;
static uint64_t g_fs_cnt;          /* fs + identity calls made during expansions */
#define FS_MAP_CAP 32
static struct { char kind; const char *key; const char *target; } g_fs_map[FS_MAP_CAP];
static int g_fs_map_n;
static const char *g_hostname;
static const char *g_disk_dir;    /* simulated disk: where expansions' writes land */
static const char *g_exe_name;    /* what /proc/self/exe points to, as far as an expansion can tell */
static int g_have_uid, g_have_ncpu;
static long g_uid, g_ncpu;

static const char *raw_getenv(const char *name) {
    size_t n = strlen(name);
    if (!environ) return NULL;
    for (char **e = environ; *e; e++)
        if (strncmp(*e, name, n) == 0 && (*e)[n] == '=') return *e + n + 1;
    return NULL;
}

static void init(void) {
    if (g_init) return;
    g_init = 1;
    const char *s;
    if ((s = raw_getenv("SIM_ENTROPY_SEED"))) { g_have_entropy = 1; g_entropy_seed = strtoull(s, NULL, 10); }
    /* start the stream at word N: lets the driver hand the main thread the keys that the
     * k-th thread of another run received */
    if ((s = raw_getenv("SIM_ENTROPY_SKIP"))) g_entropy_pos = strtoull(s, NULL, 10);
    if ((s = raw_getenv("SIM_CLOCK_EPOCH_NS"))) {
        g_have_clock = 1;
        g_clock_epoch_ns = strtoll(s, NULL, 10);
        const char *st = raw_getenv("SIM_CLOCK_STEP_NS");
        g_clock_step_ns = st ? strtoll(st, NULL, 10) : 1;
    }
    if ((s = raw_getenv("SIM_PID"))) { g_have_pid = 1; g_pid = strtol(s, NULL, 10); }
    g_hostname = raw_getenv("SIM_HOSTNAME");
    g_disk_dir = raw_getenv("SIM_DISK_DIR");
    g_exe_name = raw_getenv("SIM_EXE_NAME");
    if ((s = raw_getenv("SIM_UID"))) { g_have_uid = 1; g_uid = strtol(s, NULL, 10); }
    if ((s = raw_getenv("SIM_NCPU"))) { g_have_ncpu = 1; g_ncpu = strtol(s, NULL, 10); if (g_ncpu < 1) g_ncpu = 1; }
    /* SIM_FS_MAP: lines "<kind>\t<key>\t<target>"; kind R = redirect to target, N = absent.
     * key matches a path that equals it or ends with "/<key>". */
    if ((s = raw_getenv("SIM_FS_MAP"))) {
        char *copy = strdup(s);
        char *save = NULL;
        for (char *line = strtok_r(copy, "\n", &save); line && g_fs_map_n < FS_MAP_CAP; line = strtok_r(NULL, "\n", &save)) {
            char *t1 = strchr(line, '\t');
            if (!t1) continue;
            *t1 = 0;
            char *t2 = strchr(t1 + 1, '\t');
            if (t2) *t2 = 0;
            g_fs_map[g_fs_map_n].kind = line[0];
            g_fs_map[g_fs_map_n].key = t1 + 1;
            g_fs_map[g_fs_map_n].target = t2 ? t2 + 1 : "";
            g_fs_map_n++;
        }
    }
}

static uint64_t splitmix64(uint64_t x) {
    x += 0x9E3779B97F4A7C15ULL;
    x = (x ^ (x >> 30)) * 0xBF58476D1CE4E5B9ULL;
    x = (x ^ (x >> 27)) * 0x94D049BB133111EBULL;
    return x ^ (x >> 31);
}

static void fill(void *buf, size_t len) {
    unsigned char *p = buf;
    while (len > 0) {
        uint64_t pos = __atomic_fetch_add(&g_entropy_pos, 1, __ATOMIC_SEQ_CST);
        uint64_t w = splitmix64(g_entropy_seed * 0x100000001B3ULL + pos);
        size_t n = len < 8 ? len : 8;
        memcpy(p, &w, n);
        p += n;
        len -= n;
    }
}

ssize_t getrandom(void *buf, size_t len, unsigned int flags) {
    init();
    g_cnt[0]++;
    if (g_in_expansion) g_cnt[1]++;
    g_cnt[2] += len;
    if (!g_have_entropy) return syscall(SYS_getrandom, buf, len, flags);
    fill(buf, len);
    return (ssize_t)len;
}

int getentropy(void *buf, size_t len) {
    init();
    if (len > 256) { errno = EIO; return -1; }
    g_cnt[0]++;
    if (g_in_expansion) g_cnt[1]++;
    g_cnt[2] += len;
    if (!g_have_entropy) return syscall(SYS_getrandom, buf, len, 0) == (long)len ? 0 : -1;
    fill(buf, len);
    return 0;
}

static int64_t sim_now_ns(void) {
    g_cnt[3]++;
    if (g_in_expansion) g_cnt[4]++;
    return g_clock_epoch_ns + g_clock_step_ns * (int64_t)(g_clock_reads++);
}

int clock_gettime(clockid_t clk, struct timespec *ts) {
    init();
    if (!g_have_clock) {
        g_cnt[3]++;
        if (g_in_expansion) g_cnt[4]++;
        return syscall(SYS_clock_gettime, clk, ts);
    }
    int64_t t = sim_now_ns();
    if (ts) { ts->tv_sec = t / 1000000000LL; ts->tv_nsec = t % 1000000000LL; }
    return 0;
}

int gettimeofday(struct timeval *restrict tv, void *restrict tz) {
    init();
    (void)tz;
    if (!g_have_clock) {
        g_cnt[3]++;
        if (g_in_expansion) g_cnt[4]++;
        return syscall(SYS_gettimeofday, tv, NULL);
    }
    int64_t t = sim_now_ns();
    if (tv) { tv->tv_sec = t / 1000000000LL; tv->tv_usec = (t % 1000000000LL) / 1000; }
    return 0;
}

time_t time(time_t *out) {
    init();
    time_t r;
    if (!g_have_clock) {
        struct timespec ts;
        g_cnt[3]++;
        if (g_in_expansion) g_cnt[4]++;
        syscall(SYS_clock_gettime, CLOCK_REALTIME, &ts);
        r = ts.tv_sec;
    } else {
        r = (time_t)(sim_now_ns() / 1000000000LL);
    }
    if (out) *out = r;
    return r;
}

pid_t getpid(void) {
    init();
    g_cnt[7]++;
    if (g_in_expansion) g_cnt[8]++;
    if (!g_have_pid) return (pid_t)syscall(SYS_getpid);
    return (pid_t)g_pid;
}

static void note_into(char *buf, size_t *len, const char *name) {
    size_t n = strlen(name);
    if (n == 0 || n > 300) return;
    /* de-duplicate */
    size_t i = 0;
    while (i < *len) {
        size_t j = i;
        while (j < *len && buf[j] != ';') j++;
        if (j - i == n && memcmp(buf + i, name, n) == 0) return;
        i = j + 1;
    }
    if (*len + n + 2 >= NAMES_CAP) return;
    for (size_t k = 0; k < n; k++) {
        char c = name[k];
        buf[*len + k] = (c == ';' || c == ' ' || c == '\n' || c == '\\') ? '_' : c;
    }
    *len += n;
    buf[(*len)++] = ';';
    buf[*len] = 0;
}

static void note_name(const char *name) { note_into(g_names, &g_names_len, name); }
static void note_fs(const char *name) { g_fs_cnt++; note_into(g_fs_names, &g_fs_names_len, name); }

char *getenv(const char *name) {
    init();
    g_cnt[5]++;
    if (g_in_expansion) { g_cnt[6]++; note_name(name); }
    return (char *)raw_getenv(name);
}

char *secure_getenv(const char *name) {
    return getenv(name);
}

#ifndef SIM_MINIMAL
/* ---- file-system seam ---- */

/* simulated disk: <SIM_DISK_DIR>/<path with '/' -> '%'> */
static __thread char g_disk_buf[2][1200];
static const char *disk_path(const char *path, int slot) {
    if (!g_disk_dir || !path) return NULL;
    size_t dl = strlen(g_disk_dir), pl = strlen(path);
    if (dl + pl + 2 >= sizeof g_disk_buf[0]) return NULL;
    char *b = g_disk_buf[slot];
    memcpy(b, g_disk_dir, dl);
    b[dl] = '/';
    for (size_t i = 0; i < pl; i++) b[dl + 1 + i] = path[i] == '/' ? '%' : path[i];
    b[dl + 1 + pl] = 0;
    return b;
}
static int disk_has(const char *p) {
    struct stat st;
    return p && syscall(SYS_newfstatat, AT_FDCWD, p, &st, 0) == 0;
}

/* 0 = untouched, 1 = redirected (*out set), -1 = absent */
static int fs_lookup(const char *path, const char **out) {
    if (!path || !g_in_expansion) return 0;
    note_fs(path);
    {
        /* something an earlier expansion (possibly of an earlier host) wrote */
        const char *d = disk_path(path, 0);
        if (disk_has(d)) { *out = d; return 1; }
    }
    size_t pl = strlen(path);
    for (int i = 0; i < g_fs_map_n; i++) {
        const char *k = g_fs_map[i].key;
        size_t kl = strlen(k);
        int hit = strcmp(path, k) == 0 || (pl > kl && path[pl - kl - 1] == '/' && strcmp(path + pl - kl, k) == 0);
        if (!hit) continue;
        if (g_fs_map[i].kind == 'N') return -1;
        *out = g_fs_map[i].target;
        return 1;
    }
    return 0;
}

#define REAL(name) ({ static void *p_; if (!p_) p_ = dlsym(RTLD_NEXT, name); p_; })

static int open_common(const char *fn, int dirfd, const char *path, int flags, mode_t mode) {
    init();
    const char *t = path;
    if (g_in_expansion && g_disk_dir && path && (flags & (O_WRONLY | O_RDWR | O_CREAT | O_TRUNC | O_APPEND))) {
        /* a write: goes to the simulated disk */
        note_fs(path);
        g_cnt[9]++;
        const char *d = disk_path(path, 0);
        if (d) return (int)syscall(SYS_openat, AT_FDCWD, d, flags, mode ? mode : 0644);
    }
    int r = fs_lookup(path, &t);
    if (r < 0) { errno = ENOENT; return -1; }
    (void)fn;
    return (int)syscall(SYS_openat, dirfd, t, flags, mode);
}

int open(const char *path, int flags, ...) {
    mode_t mode = 0;
    if (flags & (O_CREAT | O_TMPFILE)) { va_list ap; va_start(ap, flags); mode = va_arg(ap, mode_t); va_end(ap); }
    return open_common("open", AT_FDCWD, path, flags, mode);
}
int open64(const char *path, int flags, ...) {
    mode_t mode = 0;
    if (flags & (O_CREAT | O_TMPFILE)) { va_list ap; va_start(ap, flags); mode = va_arg(ap, mode_t); va_end(ap); }
    return open_common("open64", AT_FDCWD, path, flags | O_LARGEFILE, mode);
}
int openat(int dirfd, const char *path, int flags, ...) {
    mode_t mode = 0;
    if (flags & (O_CREAT | O_TMPFILE)) { va_list ap; va_start(ap, flags); mode = va_arg(ap, mode_t); va_end(ap); }
    return open_common("openat", dirfd, path, flags, mode);
}
int openat64(int dirfd, const char *path, int flags, ...) {
    mode_t mode = 0;
    if (flags & (O_CREAT | O_TMPFILE)) { va_list ap; va_start(ap, flags); mode = va_arg(ap, mode_t); va_end(ap); }
    return open_common("openat64", dirfd, path, flags | O_LARGEFILE, mode);
}

FILE *fopen(const char *path, const char *m) {
    init();
    const char *t = path;
    if (g_in_expansion && g_disk_dir && path && m && (strchr(m, 'w') || strchr(m, 'a') || strchr(m, '+'))) {
        note_fs(path);
        g_cnt[9]++;
        const char *d = disk_path(path, 0);
        FILE *(*realw)(const char *, const char *) = REAL("fopen");
        if (d && realw) return realw(d, m);
    }
    int r = fs_lookup(path, &t);
    if (r < 0) { errno = ENOENT; return NULL; }
    FILE *(*real)(const char *, const char *) = REAL("fopen");
    return real ? real(t, m) : NULL;
}
FILE *fopen64(const char *path, const char *m) {
    init();
    const char *t = path;
    int r = fs_lookup(path, &t);
    if (r < 0) { errno = ENOENT; return NULL; }
    FILE *(*real)(const char *, const char *) = REAL("fopen64");
    return real ? real(t, m) : NULL;
}

int stat(const char *path, struct stat *st) {
    init();
    const char *t = path;
    if (fs_lookup(path, &t) < 0) { errno = ENOENT; return -1; }
    return (int)syscall(SYS_newfstatat, AT_FDCWD, t, st, 0);
}
int lstat(const char *path, struct stat *st) {
    init();
    const char *t = path;
    if (fs_lookup(path, &t) < 0) { errno = ENOENT; return -1; }
    return (int)syscall(SYS_newfstatat, AT_FDCWD, t, st, AT_SYMLINK_NOFOLLOW);
}
int stat64(const char *path, struct stat64 *st) { return stat(path, (struct stat *)st); }
int lstat64(const char *path, struct stat64 *st) { return lstat(path, (struct stat *)st); }
int fstatat(int dirfd, const char *path, struct stat *st, int flags) {
    init();
    const char *t = path;
    if (path && *path && fs_lookup(path, &t) < 0) { errno = ENOENT; return -1; }
    return (int)syscall(SYS_newfstatat, dirfd, t, st, flags);
}
int fstatat64(int dirfd, const char *path, struct stat64 *st, int flags) { return fstatat(dirfd, path, (struct stat *)st, flags); }
int statx(int dirfd, const char *path, int flags, unsigned int mask, struct statx *stx) {
    init();
    const char *t = path;
    if (path && *path && fs_lookup(path, &t) < 0) { errno = ENOENT; return -1; }
    return (int)syscall(SYS_statx, dirfd, t, flags, mask, stx);
}
int access(const char *path, int mode) {
    init();
    const char *t = path;
    if (fs_lookup(path, &t) < 0) { errno = ENOENT; return -1; }
    return (int)syscall(SYS_faccessat, AT_FDCWD, t, mode);
}
int faccessat(int dirfd, const char *path, int mode, int flags) {
    init();
    const char *t = path;
    if (fs_lookup(path, &t) < 0) { errno = ENOENT; return -1; }
    int (*real)(int, const char *, int, int) = REAL("faccessat");
    return real ? real(dirfd, t, mode, flags) : -1;
}
ssize_t readlink(const char *path, char *buf, size_t n) {
    init();
    if (g_in_expansion && g_exe_name && path && (strcmp(path, "/proc/self/exe") == 0 || strcmp(path, "/proc/curproc/file") == 0)) {
        /* which program is hosting the expander (rustc, a proc-macro server, clippy-driver, ...) */
        note_fs(path);
        size_t l = strlen(g_exe_name);
        if (l > n) l = n;
        memcpy(buf, g_exe_name, l);
        return (ssize_t)l;
    }
    const char *t = path;
    if (fs_lookup(path, &t) < 0) { errno = ENOENT; return -1; }
    return syscall(SYS_readlinkat, AT_FDCWD, t, buf, n);
}
DIR *opendir(const char *path) {
    init();
    const char *t = path;
    if (fs_lookup(path, &t) < 0) { errno = ENOENT; return NULL; }
    DIR *(*real)(const char *) = REAL("opendir");
    return real ? real(t) : NULL;
}

int mkdir(const char *path, mode_t mode) {
    init();
    if (g_in_expansion && g_disk_dir) { note_fs(path); g_cnt[9]++; return 0; } /* directories are implicit on the simulated disk */
    return (int)syscall(SYS_mkdirat, AT_FDCWD, path, mode);
}
int mkdirat(int dirfd, const char *path, mode_t mode) {
    init();
    if (g_in_expansion && g_disk_dir) { note_fs(path); g_cnt[9]++; return 0; }
    return (int)syscall(SYS_mkdirat, dirfd, path, mode);
}
int rename(const char *from, const char *to) {
    init();
    if (g_in_expansion && g_disk_dir) {
        note_fs(from); note_fs(to); g_cnt[9]++;
        const char *a = disk_path(from, 0), *b = disk_path(to, 1);
        if (a && b && disk_has(a)) return (int)syscall(SYS_renameat, AT_FDCWD, a, AT_FDCWD, b);
    }
    return (int)syscall(SYS_renameat, AT_FDCWD, from, AT_FDCWD, to);
}
int unlink(const char *path) {
    init();
    if (g_in_expansion && g_disk_dir) {
        note_fs(path); g_cnt[9]++;
        const char *a = disk_path(path, 0);
        if (disk_has(a)) return (int)syscall(SYS_unlinkat, AT_FDCWD, a, 0);
    }
    return (int)syscall(SYS_unlinkat, AT_FDCWD, path, 0);
}

/* ---- threads created by the system under test ----
 * The expander has no threads.  If a change gives it some, their interleaving is the one
 * thing this simulator does not own (std::thread cannot be intercepted without a hook).
 * What the shim can do: record that it happened, and start each such thread after a delay
 * drawn from the host's seeded stream, so that "first to finish" differs between hosts
 * instead of being the same lucky order everywhere.  Not a replayable schedule -- a
 * divergence found this way is reported as such. */
#include <pthread.h>
struct sim_tramp { void *(*fn)(void *); void *arg; unsigned delay_us; };
static void *sim_trampoline(void *p) {
    struct sim_tramp t = *(struct sim_tramp *)p;
    free(p);
    if (t.delay_us) { struct timespec ts = { 0, (long)t.delay_us * 1000L }; syscall(SYS_nanosleep, &ts, NULL); }
    return t.fn(t.arg);
}
static uint64_t g_thread_seq;
int pthread_create(pthread_t *th, const pthread_attr_t *attr, void *(*fn)(void *), void *arg) {
    init();
    int (*real)(pthread_t *, const pthread_attr_t *, void *(*)(void *), void *) = REAL("pthread_create");
    if (!real) return EAGAIN;
    if (!g_in_expansion) return real(th, attr, fn, arg);
    note_fs("call:pthread_create");
    struct sim_tramp *t = malloc(sizeof *t);
    if (!t) return real(th, attr, fn, arg);
    t->fn = fn; t->arg = arg;
    uint64_t k = __atomic_fetch_add(&g_thread_seq, 1, __ATOMIC_SEQ_CST);
    t->delay_us = (unsigned)(splitmix64(g_entropy_seed * 0x9E3779B97F4A7C15ULL + 0x7468726561640000ULL + k) % 3000);
    return real(th, attr, sim_trampoline, t);
}

/* ---- identity seam ---- */

int gethostname(char *name, size_t len) {
    init();
    if (g_in_expansion) note_fs("call:gethostname");
    if (!g_hostname) { int (*real)(char *, size_t) = REAL("gethostname"); return real ? real(name, len) : -1; }
    strncpy(name, g_hostname, len);
    if (len) name[len - 1] = 0;
    return 0;
}
int uname(struct utsname *u) {
    init();
    if (g_in_expansion) note_fs("call:uname");
    int r = (int)syscall(SYS_uname, u);
    if (r == 0 && g_hostname) { strncpy(u->nodename, g_hostname, sizeof u->nodename); u->nodename[sizeof u->nodename - 1] = 0; }
    return r;
}
uid_t getuid(void) {
    init();
    if (g_in_expansion) note_fs("call:getuid");
    return g_have_uid ? (uid_t)g_uid : (uid_t)syscall(SYS_getuid);
}
uid_t geteuid(void) {
    init();
    if (g_in_expansion) note_fs("call:geteuid");
    return g_have_uid ? (uid_t)g_uid : (uid_t)syscall(SYS_geteuid);
}
pid_t getppid(void) {
    init();
    if (g_in_expansion) note_fs("call:getppid");
    return g_have_pid ? (pid_t)(g_pid / 2 + 1) : (pid_t)syscall(SYS_getppid);
}
int isatty(int fd) {
    init();
    if (g_in_expansion) note_fs("call:isatty");
    /* a simulated host's terminal-ness follows its uid seam: odd uid = interactive */
    if (g_have_uid) { if (g_uid % 2) return 1; errno = ENOTTY; return 0; }
    int (*real)(int) = REAL("isatty");
    return real ? real(fd) : 0;
}
mode_t umask(mode_t m) {
    init();
    if (g_in_expansion) note_fs("call:umask");
    mode_t real_old = (mode_t)syscall(SYS_umask, m);
    /* what a host's umask "was" follows its uid seam */
    if (g_in_expansion && g_have_uid) return (g_uid % 2) ? 0077 : 0022;
    return real_old;
}
#include <sys/resource.h>
int getrlimit(__rlimit_resource_t res, struct rlimit *rl) {
    init();
    if (g_in_expansion) note_fs("call:getrlimit");
    int r = (int)syscall(SYS_prlimit64, 0, res, NULL, rl);
    if (r == 0 && g_in_expansion && g_have_ncpu && rl) {
        /* resource limits of a simulated host follow its machine-size seam */
        if (res == RLIMIT_NOFILE) rl->rlim_cur = 256 * (rlim_t)g_ncpu;
        if (res == RLIMIT_STACK && rl->rlim_cur != RLIM_INFINITY) rl->rlim_cur = (rlim_t)(1 + g_ncpu % 8) << 20;
    }
    return r;
}
int sched_getaffinity(pid_t pid, size_t sz, cpu_set_t *set) {
    init();
    if (g_in_expansion) note_fs("call:sched_getaffinity");
    int r = (int)syscall(SYS_sched_getaffinity, pid, sz, set);
    if (r < 0) return -1;
    if (g_have_ncpu) {
        memset(set, 0, sz);
        for (long i = 0; i < g_ncpu && (size_t)i < sz * 8; i++) CPU_SET_S(i, sz, set);
    }
    return 0;
}
long sysconf(int name) {
    init();
    if (name == _SC_NPROCESSORS_ONLN || name == _SC_NPROCESSORS_CONF) {
        if (g_in_expansion) note_fs("call:sysconf_nprocessors");
        if (g_have_ncpu) return g_ncpu;
    }
    long (*real)(int) = REAL("sysconf");
    return real ? real(name) : -1;
}

/* ---- scheduling points for concurrent groups ------------------------------------------
 * While a thread of the host is a member of a concurrent group it registers a hook.  Every
 * heap allocation of that thread is then a point where the host's seeded scheduler may hand
 * the baton to another member (why = 0), and a futex wait -- the thread is about to block
 * on a lock or a Once another member holds -- is a point where it *must* (why = 1): the
 * wait is turned into a spurious wake-up after the other member has run, which every
 * futex-based primitive tolerates.  Without a registered hook nothing changes.            */
extern void *__libc_malloc(size_t);
typedef int (*sim_sched_fn)(void *arg, int why);
static __thread sim_sched_fn t_sched __attribute__((tls_model("initial-exec")));
static __thread void *t_sched_arg __attribute__((tls_model("initial-exec")));
static __thread int t_in_sched __attribute__((tls_model("initial-exec")));
static uint64_t g_alloc_points, g_block_points;

void sim_set_sched_hook(sim_sched_fn f, void *arg) { t_sched = f; t_sched_arg = arg; }
uint64_t sim_sched_points(int which) { return which ? g_block_points : g_alloc_points; }

void *malloc(size_t n) {
    void *p = __libc_malloc(n);
    if (t_sched && !t_in_sched) {
        t_in_sched = 1;
        __sync_fetch_and_add(&g_alloc_points, 1);
        t_sched(t_sched_arg, 0);
        t_in_sched = 0;
    }
    return p;
}

static long raw_syscall6(long n, long a, long b, long c, long d, long e, long f) {
    long ret;
    register long r10 __asm__("r10") = d;
    register long r8 __asm__("r8") = e;
    register long r9 __asm__("r9") = f;
    __asm__ volatile("syscall" : "=a"(ret) : "a"(n), "D"(a), "S"(b), "d"(c), "r"(r10), "r"(r8), "r"(r9) : "rcx", "r11", "memory");
    return ret;
}

long syscall(long number, ...) {
    va_list ap;
    long a[6];
    va_start(ap, number);
    for (int i = 0; i < 6; i++) a[i] = va_arg(ap, long);
    va_end(ap);
    /* system calls made through libc's syscall() instead of the named wrappers: same seams */
    if (number == SYS_getrandom) {
        init();
        if (g_have_entropy) {
            g_cnt[0]++;
            if (g_in_expansion) g_cnt[1]++;
            g_cnt[2] += (uint64_t)a[1];
            fill((void *)a[0], (size_t)a[1]);
            return a[1];
        }
    }
    if (number == SYS_getpid && g_have_pid) {
        g_cnt[7]++;
        if (g_in_expansion) g_cnt[8]++;
        return g_pid;
    }
    if (number == SYS_gettid && g_have_pid) {
        /* (the main thread's id is the pid; other threads follow it) */
        static __thread long t_tid __attribute__((tls_model("initial-exec")));
        static long next_tid;
        if (!t_tid) t_tid = g_pid + __sync_fetch_and_add(&next_tid, 1);
        if (g_in_expansion) g_cnt[8]++;
        return t_tid;
    }
    if (number == SYS_clock_gettime && g_have_clock) return clock_gettime((clockid_t)a[0], (struct timespec *)a[1]);
    if (number == SYS_futex && t_sched && !t_in_sched) {
        int op = (int)a[1] & 127; /* without FUTEX_PRIVATE_FLAG / FUTEX_CLOCK_REALTIME */
        if (op == 0 /* FUTEX_WAIT */ || op == 9 /* FUTEX_WAIT_BITSET */) {
            if (*(volatile uint32_t *)a[0] != (uint32_t)a[2]) {
                errno = EAGAIN;
                return -1;
            }
            t_in_sched = 1;
            int switched = t_sched(t_sched_arg, 1);
            t_in_sched = 0;
            /* (waits of the scheduler's own mutex and condition variable also come through
             * here and are declined by the host: how many there are depends on real timing,
             * so only the waits that became switches are counted) */
            if (switched) {
                __sync_fetch_and_add(&g_block_points, 1);
                return 0;
            }
        }
    }
    long r = raw_syscall6(number, a[0], a[1], a[2], a[3], a[4], a[5]);
    if (r < 0 && r >= -4095) {
        errno = (int)-r;
        return -1;
    }
    return r;
}

/* ---- more of what a process is given without asking twice ------------------------------ */
#include <sys/auxv.h>
#include <sys/times.h>

/* AT_RANDOM: sixteen bytes the kernel hands every process; a hash seeded from them would
 * bypass getrandom */
unsigned long getauxval(unsigned long type) {
    init();
    if (type == AT_RANDOM && g_have_entropy) {
        static unsigned char r[16];
        static int done;
        if (!done) { fill(r, 16); done = 1; }
        g_cnt[0]++;
        if (g_in_expansion) g_cnt[1]++;
        return (unsigned long)r;
    }
    unsigned long (*real)(unsigned long) = REAL("getauxval");
    return real ? real(type) : 0;
}

/* which CPU the thread happens to run on: follows the cpu-count seam */
int sched_getcpu(void) {
    init();
    if (g_have_ncpu) return (int)((g_have_pid ? g_pid : 0) % g_ncpu);
    int (*real)(void) = REAL("sched_getcpu");
    return real ? real() : 0;
}

/* processor time: follows the simulated clock */
clock_t clock(void) {
    init();
    if (g_have_clock) return (clock_t)((sim_now_ns() - g_clock_epoch_ns) / 1000);
    clock_t (*real)(void) = REAL("clock");
    return real ? real() : (clock_t)-1;
}

clock_t times(struct tms *b) {
    init();
    if (g_have_clock) {
        clock_t t = (clock_t)((sim_now_ns() - g_clock_epoch_ns) / 10000000);
        if (b) { b->tms_utime = t; b->tms_stime = 0; b->tms_cutime = 0; b->tms_cstime = 0; }
        return t;
    }
    clock_t (*real)(struct tms *) = REAL("times");
    return real ? real(b) : (clock_t)-1;
}

int getrusage(int who, struct rusage *ru) {
    init();
    int (*real)(int, struct rusage *) = REAL("getrusage");
    int rc = real ? real(who, ru) : -1;
    if (rc == 0 && g_have_clock && ru) {
        int64_t ns = sim_now_ns() - g_clock_epoch_ns;
        memset(ru, 0, sizeof *ru);
        ru->ru_utime.tv_sec = ns / 1000000000;
        ru->ru_utime.tv_usec = (ns / 1000) % 1000000;
        ru->ru_maxrss = 4096 * (1 + (g_have_ncpu ? g_ncpu : 1));
    }
    return rc;
}

#endif /* SIM_MINIMAL */

/* ---- interface for the host binary (looked up with dlsym(RTLD_DEFAULT, ...)) ---- */

void sim_mark(int on) { init(); g_in_expansion = on; }

/* copies up to n counters; returns how many exist */
int sim_counters(uint64_t *out, int n) {
    init();
    int k = n < 10 ? n : 10;
    for (int i = 0; i < k; i++) out[i] = g_cnt[i];
    return 10;
}

const char *sim_env_names(void) { return g_names; }
const char *sim_fs_names(void) { return g_fs_names; }
uint64_t sim_fs_count(void) { return g_fs_cnt; }

int sim_active(void) { init(); return 1 | (g_have_entropy << 1) | (g_have_clock << 2) | (g_have_pid << 3); }
