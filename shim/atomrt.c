/* atomrt: a runtime for `-Zsanitizer=thread -Zexternal-clangrt` with everything but the
 * instrumentation of *atomic operations* switched off
 * (-tsan-instrument-memory-accesses=0 -tsan-instrument-func-entry-exit=0
 *  -tsan-instrument-memintrinsics=0).
 *
 * In the `*-atom` build of the simulated host every atomic operation of the expander and of
 * the generic / inlined std code compiled into it (the fast paths of Mutex, RwLock, Once,
 * OnceLock, Arc, the atomics themselves) is a call into this file.  The operation is
 * performed here, sequentially consistent (never weaker than what was asked for), and -- if
 * the calling thread is a member of a concurrent group and has registered a hook -- it is
 * first offered to the host's seeded scheduler as a scheduling point (why = 2).
 * This is what lets the simulator interleave two expansions *between two atomic operations*
 * (a check-then-insert on a lock-protected table) without any hook in the code under test.
 */
#include <stdint.h>
#include <stddef.h>

typedef int (*atomrt_hook_fn)(void *arg, int why);
static __thread atomrt_hook_fn t_hook;
static __thread void *t_arg;
static __thread int t_in;
static uint64_t g_points;

void atomrt_set_hook(atomrt_hook_fn f, void *arg) { t_hook = f; t_arg = arg; }
uint64_t atomrt_points(void) { return __atomic_load_n(&g_points, __ATOMIC_RELAXED); }

static inline void point(void) {
    if (t_hook && !t_in) {
        t_in = 1;
        __atomic_fetch_add(&g_points, 1, __ATOMIC_RELAXED);
        t_hook(t_arg, 2);
        t_in = 0;
    }
}

void __tsan_init(void) {}

#define SC __ATOMIC_SEQ_CST
#define DEF(N, T)                                                                                                   \
    T __tsan_atomic##N##_load(const volatile T *a, int mo) { (void)mo; point(); return __atomic_load_n(a, SC); }    \
    void __tsan_atomic##N##_store(volatile T *a, T v, int mo) { (void)mo; point(); __atomic_store_n(a, v, SC); }    \
    T __tsan_atomic##N##_exchange(volatile T *a, T v, int mo) { (void)mo; point(); return __atomic_exchange_n(a, v, SC); } \
    T __tsan_atomic##N##_fetch_add(volatile T *a, T v, int mo) { (void)mo; point(); return __atomic_fetch_add(a, v, SC); } \
    T __tsan_atomic##N##_fetch_sub(volatile T *a, T v, int mo) { (void)mo; point(); return __atomic_fetch_sub(a, v, SC); } \
    T __tsan_atomic##N##_fetch_and(volatile T *a, T v, int mo) { (void)mo; point(); return __atomic_fetch_and(a, v, SC); } \
    T __tsan_atomic##N##_fetch_or(volatile T *a, T v, int mo) { (void)mo; point(); return __atomic_fetch_or(a, v, SC); }   \
    T __tsan_atomic##N##_fetch_xor(volatile T *a, T v, int mo) { (void)mo; point(); return __atomic_fetch_xor(a, v, SC); } \
    T __tsan_atomic##N##_fetch_nand(volatile T *a, T v, int mo) { (void)mo; point(); return __atomic_fetch_nand(a, v, SC); } \
    int __tsan_atomic##N##_compare_exchange_strong(volatile T *a, T *c, T v, int mo, int fmo) {                     \
        (void)mo; (void)fmo; point(); return __atomic_compare_exchange_n(a, c, v, 0, SC, SC);                       \
    }                                                                                                               \
    int __tsan_atomic##N##_compare_exchange_weak(volatile T *a, T *c, T v, int mo, int fmo) {                       \
        (void)mo; (void)fmo; point(); return __atomic_compare_exchange_n(a, c, v, 0, SC, SC);                       \
    }                                                                                                               \
    T __tsan_atomic##N##_compare_exchange_val(volatile T *a, T c, T v, int mo, int fmo) {                           \
        (void)mo; (void)fmo; point(); __atomic_compare_exchange_n(a, &c, v, 0, SC, SC); return c;                   \
    }

DEF(8, uint8_t)
DEF(16, uint16_t)
DEF(32, uint32_t)
DEF(64, uint64_t)

void __tsan_atomic_thread_fence(int mo) { (void)mo; point(); __atomic_thread_fence(SC); }
void __tsan_atomic_signal_fence(int mo) { (void)mo; __atomic_signal_fence(SC); }
