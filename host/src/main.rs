//! Simulated build host.
//!
//! One process = one build host.  It loads the *real* o2o expander (path dependency on the
//! repository's working tree), reads a history of events from stdin and executes them one
//! at a time, each on the thread the history names.  All threads are real `std::thread`s
//! (RandomState keys and proc-macro2's source map are per thread), but exactly one of them
//! is runnable at any moment: the main thread hands an event to a worker over a channel and
//! blocks until the worker has answered.  The interleaving is therefore the plan's, not the
//! kernel's.
//!
//! The host never decides anything itself: entropy, clock, pid and environment are what the
//! driver put behind the libc seams (shim/simhost.c), and the history is the driver's.
//!
//! stdin  (one record per line, fields separated by one space, strings escaped):
//!   I <id> <text>            define input <id>
//!   T <tid>                  spawn worker thread <tid>   (thread 0 is the main thread)
//!   E <seq> <tid> <id> [t]   expand input <id> on thread <tid>; prints an R line.  `t`: as a *token-built*
//!                            input (every span is the call site: what another macro would hand over)
//!   X <seed> <n> (<seq> <tid> <id>) x n    expand two or three inputs concurrently on as many worker threads under
//!                            a seeded interleaving; prints two R lines and a K line (number of switches)
//!   P <tid> <n> <seed>       heap perturbation on thread <tid>: n seeded allocations, some kept
//!   O <tid> <policy> <seed> [<file>:<line>]  (hooked build) order policy + container seed for later expansions on <tid>, optionally for one iteration site only
//!   A                        (selftest) print the address of a stack variable and of a fresh heap block
//! stdout:
//!   R <seq> <tid> <id> <OK|ERR|PANIC|PARSE> <text> <spans>
//!   B <seq> <file:line:op:len:order_sig:canon_sig>,...     (hooked build; one per expansion)
//!   S <10 shim counters> <env names looked up during expansions> <shim flags> <fs/identity calls during expansions> <their paths/names>

use std::io::{Read, Write};
use std::sync::mpsc::{channel, Receiver, Sender};

#[cfg(feature = "syn2")]
use syn2 as syn;

use proc_macro2::{TokenStream, TokenTree};

// ---------------------------------------------------------------- shim access

type MarkFn = unsafe extern "C" fn(i32);
type CountersFn = unsafe extern "C" fn(*mut u64, i32) -> i32;
type NamesFn = unsafe extern "C" fn() -> *const std::os::raw::c_char;
type ActiveFn = unsafe extern "C" fn() -> i32;
type FsCountFn = unsafe extern "C" fn() -> u64;

extern "C" {
    fn dlsym(handle: *mut std::ffi::c_void, symbol: *const std::os::raw::c_char) -> *mut std::ffi::c_void;
}

#[derive(Clone, Copy)]
struct Shim {
    mark: Option<MarkFn>,
    counters: Option<CountersFn>,
    names: Option<NamesFn>,
    active: Option<ActiveFn>,
    fs_names: Option<NamesFn>,
    fs_count: Option<FsCountFn>,
    set_sched: Option<SetSchedFn>,
    #[allow(dead_code)]
    sched_points: Option<SchedPointsFn>,
}

type SchedCb = extern "C" fn(*mut std::ffi::c_void, std::ffi::c_int) -> std::ffi::c_int;
type SetSchedFn = unsafe extern "C" fn(Option<SchedCb>, *mut std::ffi::c_void);
type SchedPointsFn = unsafe extern "C" fn(std::ffi::c_int) -> u64;

fn find_shim() -> Shim {
    unsafe fn sym(name: &[u8]) -> *mut std::ffi::c_void {
        dlsym(std::ptr::null_mut(), name.as_ptr() as *const _)
    }
    unsafe {
        let m = sym(b"sim_mark\0");
        let c = sym(b"sim_counters\0");
        let n = sym(b"sim_env_names\0");
        let a = sym(b"sim_active\0");
        let fnames = sym(b"sim_fs_names\0");
        let fcount = sym(b"sim_fs_count\0");
        let ss = sym(b"sim_set_sched_hook\0");
        let sp = sym(b"sim_sched_points\0");
        Shim {
            set_sched: if ss.is_null() { None } else { Some(std::mem::transmute::<*mut std::ffi::c_void, SetSchedFn>(ss)) },
            sched_points: if sp.is_null() { None } else { Some(std::mem::transmute::<*mut std::ffi::c_void, SchedPointsFn>(sp)) },
            mark: if m.is_null() { None } else { Some(std::mem::transmute::<*mut std::ffi::c_void, MarkFn>(m)) },
            counters: if c.is_null() { None } else { Some(std::mem::transmute::<*mut std::ffi::c_void, CountersFn>(c)) },
            names: if n.is_null() { None } else { Some(std::mem::transmute::<*mut std::ffi::c_void, NamesFn>(n)) },
            active: if a.is_null() { None } else { Some(std::mem::transmute::<*mut std::ffi::c_void, ActiveFn>(a)) },
            fs_names: if fnames.is_null() { None } else { Some(std::mem::transmute::<*mut std::ffi::c_void, NamesFn>(fnames)) },
            fs_count: if fcount.is_null() { None } else { Some(std::mem::transmute::<*mut std::ffi::c_void, FsCountFn>(fcount)) },
        }
    }
}

// ---------------------------------------------------------------- escaping

fn esc(s: &str) -> String {
    let mut o = String::with_capacity(s.len() + 8);
    for c in s.chars() {
        match c {
            '\\' => o.push_str("\\\\"),
            '\n' => o.push_str("\\n"),
            '\r' => o.push_str("\\r"),
            ' ' => o.push_str("\\s"),
            c => o.push(c),
        }
    }
    if o.is_empty() {
        o.push_str("\\e");
    }
    o
}

fn unesc(s: &str) -> String {
    let mut o = String::with_capacity(s.len());
    let mut it = s.chars();
    while let Some(c) = it.next() {
        if c == '\\' {
            match it.next() {
                Some('n') => o.push('\n'),
                Some('r') => o.push('\r'),
                Some('s') => o.push(' '),
                Some('e') => {},
                Some('\\') => o.push('\\'),
                Some(x) => o.push(x),
                None => {},
            }
        } else {
            o.push(c)
        }
    }
    o
}

// ---------------------------------------------------------------- rendering

fn lc(sp: proc_macro2::Span, out: &mut String) {
    let s = sp.start();
    let e = sp.end();
    out.push_str(&format!("{}:{}-{}:{};", s.line, s.column, e.line, e.column));
}

fn span_walk(ts: TokenStream, out: &mut String) {
    for tt in ts {
        match tt {
            // (what the token *text* does not show is recorded here too: the delimiter of a
            // group -- a `Delimiter::None` group prints like its contents -- and the spacing of
            // a punctuation character)
            TokenTree::Group(g) => {
                let (o, c) = match g.delimiter() {
                    proc_macro2::Delimiter::Parenthesis => ('(', ')'),
                    proc_macro2::Delimiter::Brace => ('{', '}'),
                    proc_macro2::Delimiter::Bracket => ('[', ']'),
                    proc_macro2::Delimiter::None => ('<', '>'),
                };
                out.push(o);
                lc(g.span_open(), out);
                span_walk(g.stream(), out);
                out.push(c);
                lc(g.span_close(), out);
            },
            TokenTree::Ident(i) => lc(i.span(), out),
            TokenTree::Punct(p) => {
                if p.spacing() == proc_macro2::Spacing::Joint {
                    out.push('+');
                }
                lc(p.span(), out)
            },
            TokenTree::Literal(l) => lc(l.span(), out),
        }
    }
}

struct Rendering {
    verdict: &'static str,
    text: String,
    spans: String,
}

/// Every token gets `Span::call_site()`: the input as another macro (macro_rules, a
/// function-like or attribute macro, `quote!`) would hand it over -- tokens that point at no
/// source text.
fn strip_locations(ts: TokenStream) -> TokenStream {
    ts.into_iter()
        .map(|mut t| {
            if let TokenTree::Group(g) = &t {
                let mut ng = proc_macro2::Group::new(g.delimiter(), strip_locations(g.stream()));
                ng.set_span(proc_macro2::Span::call_site());
                t = TokenTree::Group(ng);
            } else {
                t.set_span(proc_macro2::Span::call_site());
            }
            t
        })
        .collect()
}

fn expand_once(src: &str, token_built: bool) -> Rendering {
    let ts: TokenStream = match src.parse() {
        Ok(ts) => ts,
        Err(e) => return Rendering { verdict: "PARSE", text: format!("lex: {}", e), spans: String::new() },
    };
    let ts = if token_built { strip_locations(ts) } else { ts };
    let input: syn::DeriveInput = match syn::parse2(ts) {
        Ok(i) => i,
        Err(e) => {
            let mut spans = String::new();
            lc(e.span(), &mut spans);
            return Rendering { verdict: "PARSE", text: e.to_string(), spans };
        },
    };
    match o2o_impl::expand::derive(&input) {
        Ok(tokens) => {
            let text = tokens.to_string();
            let mut spans = String::new();
            span_walk(tokens, &mut spans);
            Rendering { verdict: "OK", text, spans }
        },
        Err(err) => {
            // the order of this iteration is the order rustc would print the diagnostics in
            // (syn::Error::to_compile_error emits one compile_error! per entry, in order)
            let mut text = String::new();
            let mut spans = String::new();
            for e in err {
                text.push_str(&e.to_string().replace('\u{1f}', "?"));
                text.push('\u{1f}');
                lc(e.span(), &mut spans);
            }
            Rendering { verdict: "ERR", text, spans }
        },
    }
}

/// in-expansion counters of the shim: clock reads, getenv calls, getpid calls, disk writes, fs calls
fn seam_counters(shim: Shim) -> [u64; 5] {
    let mut c = [0u64; 10];
    let mut fs = 0u64;
    unsafe {
        if let Some(f) = shim.counters {
            f(c.as_mut_ptr(), 10);
        }
        if let Some(f) = shim.fs_count {
            fs = f();
        }
    }
    [c[4], c[6], c[8], c[9], fs]
}

fn guarded_expand(src: &str, shim: Shim, token_built: bool) -> Rendering {
    if let Some(m) = shim.mark {
        unsafe { m(1) }
    }
    let r = std::panic::catch_unwind(|| expand_once(src, token_built));
    if let Some(m) = shim.mark {
        unsafe { m(0) }
    }
    match r {
        Ok(r) => r,
        Err(p) => {
            let msg = if let Some(s) = p.downcast_ref::<&str>() {
                s.to_string()
            } else if let Some(s) = p.downcast_ref::<String>() {
                s.clone()
            } else {
                "<non-string panic payload>".to_string()
            };
            Rendering { verdict: "PANIC", text: msg, spans: String::new() }
        },
    }
}

// ---------------------------------------------------------------- events

enum Cmd {
    Expand { seq: u64, tid: u32, id: u32, src: std::sync::Arc<String>, token_built: bool },
    /// one half of a pair of expansions that run *concurrently* on two threads under an
    /// interleaving chosen by the seeded scheduler (hooked build: switch points are the seam's
    /// yield points; plain build: there are none, the two simply run one after the other)
    ExpandCo { seq: u64, tid: u32, id: u32, src: std::sync::Arc<String>, baton: std::sync::Arc<Baton>, me: usize },
    /// one member of a group of expansions that start together and then run *freely*.  Only
    /// planned under Miri, whose own seeded scheduler then decides -- at basic-block granularity,
    /// repeatably per `-Zmiri-seed` -- how the threads interleave; never planned natively, where
    /// nobody would decide it.
    ExpandFree { seq: u64, tid: u32, id: u32, src: std::sync::Arc<String>, gate: std::sync::Arc<std::sync::Barrier>, stagger: u32 },
    Perturb { n: u32, seed: u64 },
    Order { policy: u8, seed: u64, site: Option<(String, u32)> },
    Quit,
}

/// Who may run.  Exactly one of the two threads of a pair holds the baton at any time; at a
/// yield point the holder asks the seeded stream whether to hand it over.
pub struct Baton {
    seed: u64,
    state: std::sync::Mutex<BatonState>,
    cv: std::sync::Condvar,
}

struct BatonState {
    turn: usize,
    done: Vec<bool>,
    rng: u64,
    switches: u64,
}

impl Baton {
    fn new(seed: u64, n: usize) -> Baton {
        Baton { seed, state: std::sync::Mutex::new(BatonState { turn: (seed % n as u64) as usize, done: vec![false; n], rng: seed | 1, switches: 0 }), cv: std::sync::Condvar::new() }
    }
    fn wait_turn(&self, me: usize) {
        let mut st = self.state.lock().unwrap();
        while st.turn != me {
            st = self.cv.wait(st).unwrap();
        }
    }
    /// some other member that has not finished yet, chosen by the seeded stream
    fn pick_other(st: &mut BatonState, me: usize) -> Option<usize> {
        // (no heap allocation in here: allocations are scheduling points themselves)
        let n = (0..st.done.len()).filter(|i| *i != me && !st.done[*i]).count();
        if n == 0 {
            None
        } else {
            let r = xorshift(&mut st.rng);
            (0..st.done.len()).filter(|i| *i != me && !st.done[*i]).nth((r % n as u64) as usize)
        }
    }
    #[allow(dead_code)]
    fn maybe_switch(&self, me: usize) {
        let mut st = self.state.lock().unwrap();
        let r = xorshift(&mut st.rng);
        if r % 3 != 0 {
            return;
        }
        if let Some(next) = Baton::pick_other(&mut st, me) {
            st.turn = next;
            st.switches += 1;
            self.cv.notify_all();
            while st.turn != me {
                st = self.cv.wait(st).unwrap();
            }
        }
    }
    /// a scheduling point the shim reports (a heap allocation): hand over with probability 1/den
    fn maybe_switch_den(&self, me: usize, den: u64) {
        if den == 0 {
            return;
        }
        let mut st = self.state.lock().unwrap();
        let r = xorshift(&mut st.rng);
        if r % den != 0 {
            return;
        }
        // (a group's voluntary hand-overs are budgeted: a hand-over costs tens of microseconds of
        // real time, and a large input offers hundreds of thousands of scheduling points)
        if st.switches >= 4000 {
            return;
        }
        if let Some(next) = Baton::pick_other(&mut st, me) {
            st.turn = next;
            st.switches += 1;
            self.cv.notify_all();
            while st.turn != me {
                st = self.cv.wait(st).unwrap();
            }
        }
    }
    /// `me` is about to block on something another member holds: that member must run
    fn blocked_switch(&self, me: usize) -> bool {
        let mut st = self.state.lock().unwrap();
        match Baton::pick_other(&mut st, me) {
            Some(next) => {
                st.turn = next;
                st.switches += 1;
                self.cv.notify_all();
                while st.turn != me {
                    st = self.cv.wait(st).unwrap();
                }
                true
            },
            None => false,
        }
    }
    fn finish(&self, me: usize) {
        let mut st = self.state.lock().unwrap();
        st.done[me] = true;
        if let Some(next) = Baton::pick_other(&mut st, me) {
            st.turn = next;
        }
        self.cv.notify_all();
    }
}

struct SchedCtx {
    baton: *const Baton,
    me: usize,
    den: u64,
    /// the same for scheduling points at atomic operations (the `atom` build only)
    aden: u64,
}

#[cfg(sim_atomics)]
extern "C" {
    fn atomrt_set_hook(f: Option<SchedCb>, arg: *mut std::ffi::c_void);
}

thread_local! {
    /// set while this thread runs the baton's own code (entered from a seam's yield point or
    /// from the shim): a scheduling point met in there is not one
    static IN_BATON: std::cell::Cell<bool> = const { std::cell::Cell::new(false) };
}

/// scheduling points offered to the scheduler: heap allocations, blocking waits that became
/// hand-overs, atomic operations
static SCHED_POINTS: [std::sync::atomic::AtomicU64; 3] = [std::sync::atomic::AtomicU64::new(0), std::sync::atomic::AtomicU64::new(0), std::sync::atomic::AtomicU64::new(0)];

extern "C" fn sched_cb(arg: *mut std::ffi::c_void, why: std::ffi::c_int) -> std::ffi::c_int {
    if IN_BATON.with(|b| b.get()) {
        return 0;
    }
    // (the baton waits on a condition variable: a futex wait, which comes back here through
    // the shim, and its mutex is made of atomic operations, which come back through atomrt)
    IN_BATON.with(|b| b.set(true));
    let ctx = unsafe { &*(arg as *const SchedCtx) };
    let baton = unsafe { &*ctx.baton };
    // counted here, after the guard: the baton's own lock and wait come back through the same
    // hooks, how often depends on real timing, and they are not scheduling points
    if why != 1 {
        SCHED_POINTS[if why == 2 { 2 } else { 0 }].fetch_add(1, std::sync::atomic::Ordering::Relaxed);
    }
    let r = if why == 1 {
        let switched = baton.blocked_switch(ctx.me);
        if switched {
            SCHED_POINTS[1].fetch_add(1, std::sync::atomic::Ordering::Relaxed);
        }
        switched as std::ffi::c_int
    } else if why == 2 {
        baton.maybe_switch_den(ctx.me, ctx.aden);
        0
    } else {
        baton.maybe_switch_den(ctx.me, ctx.den);
        0
    };
    IN_BATON.with(|b| b.set(false));
    r
}

struct ThreadState {
    shim: Shim,
    held: Vec<Vec<u8>>,
    #[allow(dead_code)]
    order: Option<(u8, u64, Option<(String, u32)>)>,
}

fn xorshift(x: &mut u64) -> u64 {
    let mut v = *x;
    if v == 0 {
        v = 0x2545F4914F6CDD1D;
    }
    v ^= v << 13;
    v ^= v >> 7;
    v ^= v << 17;
    *x = v;
    v
}

fn run_cmd(st: &mut ThreadState, cmd: Cmd) -> Option<String> {
    match cmd {
        Cmd::Expand { seq, tid, id, src, token_built } => {
            #[cfg(o2o_verif)]
            {
                let (p, s, site) = st.order.clone().unwrap_or((0, 0, None));
                o2o_impl::verif_seam::set_stream(s, o2o_impl::verif_seam::Policy::from_u8(p));
                if let Some((f, l)) = site {
                    o2o_impl::verif_seam::set_site_filter(&f, l);
                }
            }
            let before = seam_counters(st.shim);
            let r = guarded_expand(&src, st.shim, token_built);
            let after = seam_counters(st.shim);
            #[allow(unused_mut)]
            let mut line = format!("R {} {} {} {} {} {}\n", seq, tid, id, r.verdict, esc(&r.text), esc(&r.spans));
            // which seams did *this* expansion touch?  (bit 0 clock, 1 environment, 2 pid, 3 disk write,
            // 4 file system).  Feedback for the planner: such inputs are kept and expanded again under
            // those faults.  (a panic makes std look up RUST_BACKTRACE: not the expander's doing)
            let mut mask = 0u32;
            for (bit, (a, b)) in after.iter().zip(before.iter()).enumerate() {
                if a > b {
                    mask |= 1 << bit;
                }
            }
            if r.verdict == "PANIC" {
                mask &= !2;
            }
            if mask != 0 {
                line.push_str(&format!("C {} {}\n", seq, mask));
            }
            #[cfg(o2o_verif)]
            {
                let (probes, containers) = o2o_impl::verif_seam::take_probes();
                let mut b = format!("B {} {}", seq, containers);
                for p in probes {
                    let file = p.file.rsplit('/').next().unwrap_or(p.file);
                    b.push_str(&format!(" {}:{}:{}:{}:{:016x}:{:016x}", file, p.line, p.op, p.len, p.order_sig, p.canon_sig));
                }
                b.push('\n');
                line.push_str(&b);
            }
            Some(line)
        },
        Cmd::ExpandCo { seq, tid, id, src, baton, me } => {
            #[cfg(o2o_verif)]
            {
                let (p, s, site) = st.order.clone().unwrap_or((0, 0, None));
                o2o_impl::verif_seam::set_stream(s, o2o_impl::verif_seam::Policy::from_u8(p));
                if let Some((f, l)) = site {
                    o2o_impl::verif_seam::set_site_filter(&f, l);
                }
                let b = baton.clone();
                o2o_impl::verif_seam::set_yield_hook(Some(Box::new(move |_label| {
                    IN_BATON.with(|f| f.set(true));
                    b.maybe_switch(me);
                    IN_BATON.with(|f| f.set(false));
                })));
            }
            baton.wait_turn(me);
            // every heap allocation is a scheduling point too (plain and hooked builds alike),
            // taken with a probability that is part of the group's seeded schedule
            let den = match (baton.seed >> 8) % 5 {
                0 => 0,
                1 => 64,
                2 => 512,
                3 => 4096,
                _ => 32768,
            };
            let aden = match (baton.seed >> 16) % 4 {
                0 => 4,
                1 => 16,
                2 => 128,
                _ => 2048,
            };
            let ctx = SchedCtx { baton: &*baton as *const Baton, me, den, aden };
            if let Some(f) = st.shim.set_sched {
                unsafe { f(Some(sched_cb), &ctx as *const SchedCtx as *mut std::ffi::c_void) }
            }
            #[cfg(sim_atomics)]
            unsafe {
                atomrt_set_hook(Some(sched_cb), &ctx as *const SchedCtx as *mut std::ffi::c_void)
            }
            let r = guarded_expand(&src, st.shim, false);
            #[cfg(sim_atomics)]
            unsafe {
                atomrt_set_hook(None, std::ptr::null_mut())
            }
            if let Some(f) = st.shim.set_sched {
                unsafe { f(None, std::ptr::null_mut()) }
            }
            #[cfg(o2o_verif)]
            o2o_impl::verif_seam::set_yield_hook(None);
            baton.finish(me);
            #[allow(unused_mut)]
            let mut line = format!("R {} {} {} {} {} {}\n", seq, tid, id, r.verdict, esc(&r.text), esc(&r.spans));
            #[cfg(o2o_verif)]
            {
                let (_probes, containers) = o2o_impl::verif_seam::take_probes();
                line.push_str(&format!("B {} {}\n", seq, containers));
            }
            Some(line)
        },
        Cmd::ExpandFree { seq, tid, id, src, gate, stagger } => {
            gate.wait();
            // a planned head start for the other members (the barrier releases its waiters at
            // slightly different times, always the same way; this moves the offset around)
            let mut x = 0u64;
            for i in 0..stagger {
                x = std::hint::black_box(x.wrapping_add(i as u64));
            }
            std::hint::black_box(x);
            let r = guarded_expand(&src, st.shim, false);
            Some(format!("R {} {} {} {} {} {}\n", seq, tid, id, r.verdict, esc(&r.text), esc(&r.spans)))
        },
        Cmd::Perturb { n, seed } => {
            // seeded allocate / free pattern: leaves holes of assorted sizes in the allocator's
            // free lists and keeps some blocks alive, so that the addresses later expansions
            // receive -- and their relative order -- are a function of the seed
            let mut x = seed | 1;
            let mut tmp: Vec<Vec<u8>> = Vec::new();
            for _ in 0..n {
                let sz = match xorshift(&mut x) % 8 {
                    0 => 8,
                    1 => 24,
                    2 => 40,
                    3 => 72,
                    4 => 136,
                    5 => 264,
                    6 => 520,
                    _ => 16 + (xorshift(&mut x) % 2048) as usize,
                };
                let v = vec![0u8; sz];
                if xorshift(&mut x) % 3 == 0 {
                    st.held.push(v)
                } else {
                    tmp.push(v)
                }
            }
            // free the temporaries in a seeded order
            while !tmp.is_empty() {
                let i = (xorshift(&mut x) as usize) % tmp.len();
                tmp.swap_remove(i);
            }
            Some(String::new())
        },
        Cmd::Order { policy, seed, site } => {
            st.order = Some((policy, seed, site));
            Some(String::new())
        },
        Cmd::Quit => None,
    }
}

fn worker(shim: Shim, rx: Receiver<Cmd>, tx: Sender<String>) {
    let mut st = ThreadState { shim, held: Vec::new(), order: None };
    while let Ok(cmd) = rx.recv() {
        match run_cmd(&mut st, cmd) {
            Some(s) => {
                if tx.send(s).is_err() {
                    break;
                }
            },
            None => break,
        }
    }
}

fn main() {
    std::panic::set_hook(Box::new(|_| {}));
    let shim = find_shim();
    if std::env::args().any(|a| a == "--require-shim") && shim.mark.is_none() {
        eprintln!("host: simhost.so not loaded");
        std::process::exit(2);
    }

    let stdin = std::io::stdin();
    let stdout = std::io::stdout();
    let mut out = std::io::BufWriter::new(stdout.lock());

    let mut inputs: Vec<(u32, std::sync::Arc<String>)> = Vec::new();
    let mut threads: Vec<(u32, Sender<Cmd>, Receiver<String>, std::thread::JoinHandle<()>)> = Vec::new();
    let mut main_state = ThreadState { shim, held: Vec::new(), order: None };

    let mut dispatch = |tid: u32, cmd: Cmd, threads: &Vec<(u32, Sender<Cmd>, Receiver<String>, std::thread::JoinHandle<()>)>, out: &mut dyn Write| {
        let s = if tid == 0 {
            run_cmd(&mut main_state, cmd).unwrap_or_default()
        } else {
            match threads.iter().find(|t| t.0 == tid) {
                Some(t) => {
                    t.1.send(cmd).expect("worker gone");
                    t.2.recv().expect("worker died")
                },
                None => {
                    eprintln!("host: unknown thread {}", tid);
                    std::process::exit(2);
                },
            }
        };
        out.write_all(s.as_bytes()).unwrap();
    };

    // the whole history is read before anything runs: the driver can then write it and close
    // the pipe before reading our output (no deadlock on full pipes)
    // (under Miri with isolation stdin cannot be read: the history may also come as `--plan=<text>`)
    let mut all = String::new();
    match std::env::args().find_map(|a| a.strip_prefix("--plan=").map(|p| p.to_string())) {
        Some(p) => all = p,
        None => {
            stdin.lock().read_to_string(&mut all).expect("stdin");
        },
    }
    for line in all.lines() {
        let mut f = line.split(' ');
        match f.next() {
            Some("I") => {
                let id: u32 = f.next().unwrap().parse().unwrap();
                let text = unesc(f.next().unwrap_or(""));
                inputs.push((id, std::sync::Arc::new(text)));
            },
            Some("T") => {
                let tid: u32 = f.next().unwrap().parse().unwrap();
                let (ctx, crx) = channel::<Cmd>();
                let (rtx, rrx) = channel::<String>();
                let h = std::thread::Builder::new().name(format!("sim-{}", tid)).stack_size(16 << 20).spawn(move || worker(shim, crx, rtx)).expect("spawn");
                threads.push((tid, ctx, rrx, h));
            },
            Some("E") => {
                let seq: u64 = f.next().unwrap().parse().unwrap();
                let tid: u32 = f.next().unwrap().parse().unwrap();
                let id: u32 = f.next().unwrap().parse().unwrap();
                let src = match inputs.iter().find(|x| x.0 == id) {
                    Some(x) => x.1.clone(),
                    None => {
                        eprintln!("host: unknown input {}", id);
                        std::process::exit(2);
                    },
                };
                let token_built = f.next() == Some("t");
                dispatch(tid, Cmd::Expand { seq, tid, id, src, token_built }, &threads, &mut out);
            },
            Some("X") => {
                // X <schedule seed> <n> then n times: <seq> <tid> <id>   (n = 2 or 3 worker threads)
                let v: Vec<u64> = f.map(|x| x.parse().unwrap()).collect();
                let n = if v.len() >= 2 { v[1] as usize } else { 0 };
                if n < 2 || n > 3 || v.len() != 2 + 3 * n {
                    eprintln!("host: bad X record");
                    std::process::exit(2);
                }
                let members: Vec<(u64, u32, u32)> = (0..n).map(|k| (v[2 + 3 * k], v[3 + 3 * k] as u32, v[4 + 3 * k] as u32)).collect();
                for (i, m) in members.iter().enumerate() {
                    if m.1 == 0 || members[..i].iter().any(|o| o.1 == m.1) {
                        eprintln!("host: bad X record (needs different worker threads)");
                        std::process::exit(2);
                    }
                }
                let src = |id: u32| -> std::sync::Arc<String> {
                    match inputs.iter().find(|x| x.0 == id) {
                        Some(x) => x.1.clone(),
                        None => {
                            eprintln!("host: unknown input {}", id);
                            std::process::exit(2);
                        },
                    }
                };
                let baton = std::sync::Arc::new(Baton::new(v[0], n));
                for (me, m) in members.iter().enumerate() {
                    let t = match threads.iter().find(|t| t.0 == m.1) {
                        Some(t) => t,
                        None => {
                            eprintln!("host: unknown thread {}", m.1);
                            std::process::exit(2);
                        },
                    };
                    t.1.send(Cmd::ExpandCo { seq: m.0, tid: m.1, id: m.2, src: src(m.2), baton: baton.clone(), me }).expect("worker gone");
                }
                // results are printed in a fixed order, whoever finished first
                for m in &members {
                    let t = threads.iter().find(|t| t.0 == m.1).unwrap();
                    let r = t.2.recv().expect("worker died");
                    out.write_all(r.as_bytes()).unwrap();
                }
                let sw = baton.state.lock().unwrap().switches;
                let points: u64 = SCHED_POINTS.iter().map(|c| c.load(std::sync::atomic::Ordering::Relaxed)).sum();
                writeln!(out, "K {} {} {}", members[0].0, sw, points).unwrap();
            },
            Some("Y") => {
                // Y <n> then n times: <seq> <tid> <id> <stagger>: free-running group (Miri only)
                let v: Vec<u64> = f.map(|x| x.parse().unwrap()).collect();
                let n = if !v.is_empty() { v[0] as usize } else { 0 };
                if n < 2 || v.len() != 1 + 4 * n {
                    eprintln!("host: bad Y record");
                    std::process::exit(2);
                }
                let members: Vec<(u64, u32, u32, u32)> = (0..n).map(|k| (v[1 + 4 * k], v[2 + 4 * k] as u32, v[3 + 4 * k] as u32, v[4 + 4 * k] as u32)).collect();
                let gate = std::sync::Arc::new(std::sync::Barrier::new(n));
                for m in &members {
                    let (Some(t), Some(x)) = (threads.iter().find(|t| t.0 == m.1), inputs.iter().find(|x| x.0 == m.2)) else {
                        eprintln!("host: bad Y record (unknown thread or input)");
                        std::process::exit(2);
                    };
                    t.1.send(Cmd::ExpandFree { seq: m.0, tid: m.1, id: m.2, src: x.1.clone(), gate: gate.clone(), stagger: m.3 }).expect("worker gone");
                }
                for m in &members {
                    let t = threads.iter().find(|t| t.0 == m.1).unwrap();
                    let r = t.2.recv().expect("worker died");
                    out.write_all(r.as_bytes()).unwrap();
                }
            },
            Some("P") => {
                let tid: u32 = f.next().unwrap().parse().unwrap();
                let n: u32 = f.next().unwrap().parse().unwrap();
                let seed: u64 = f.next().unwrap().parse().unwrap();
                dispatch(tid, Cmd::Perturb { n, seed }, &threads, &mut out);
            },
            Some("O") => {
                let tid: u32 = f.next().unwrap().parse().unwrap();
                let policy: u8 = f.next().unwrap().parse().unwrap();
                let seed: u64 = f.next().unwrap().parse().unwrap();
                // optional: restrict the policy to one iteration site "<file>:<line>"
                let site = f.next().and_then(|x| x.rsplit_once(':').and_then(|(a, b)| b.parse::<u32>().ok().map(|l| (a.to_string(), l))));
                dispatch(tid, Cmd::Order { policy, seed, site }, &threads, &mut out);
            },
            Some("A") => {
                // selftest only: where do a stack variable and a fresh heap block live?
                let local = 0u8;
                let b = Box::new(0u64);
                writeln!(out, "A {:x} {:x}", &local as *const u8 as usize, &*b as *const u64 as usize).unwrap();
            },
            Some("") | None => {},
            Some(x) => {
                eprintln!("host: bad record {:?}", x);
                std::process::exit(2);
            },
        }
    }

    for t in threads {
        let _ = t.1.send(Cmd::Quit);
        let _ = t.3.join();
    }

    let mut c = [0u64; 10];
    let mut names = String::new();
    let mut flags = 0;
    let mut fs_names = String::new();
    let mut fs_count = 0u64;
    unsafe {
        if let Some(f) = shim.fs_names {
            let p = f();
            if !p.is_null() {
                fs_names = std::ffi::CStr::from_ptr(p).to_string_lossy().into_owned();
            }
        }
        if let Some(f) = shim.fs_count {
            fs_count = f();
        }
        if let Some(f) = shim.counters {
            f(c.as_mut_ptr(), 10);
        }
        if let Some(f) = shim.names {
            let p = f();
            if !p.is_null() {
                names = std::ffi::CStr::from_ptr(p).to_string_lossy().into_owned();
            }
        }
        if let Some(f) = shim.active {
            flags = f();
        }
    }
    let cs: Vec<String> = c.iter().map(|x| x.to_string()).collect();
    writeln!(out, "S {} {} {} {} {}", cs.join(" "), esc(&names), flags, fs_count, esc(&fs_names)).unwrap();
    out.flush().unwrap();
}
